"""One CrossHair obligation per process.

usage: python -m vf.worker <module> <fn> <params-json> <timeout> <path_timeout|->

Runs (1) the reachability twin, (2) the real condition, both by CrossHair's symbolic
execution of the harness (and therefore of the real engineio code it drives) with z3
deciding every branch.  Prints one JSON object on the last stdout line.
"""
import collections
import importlib
import json
import sys
import time
import traceback


def _install_z3_counter():
    import z3
    calls = {'n': 0, 't': 0.0}
    orig = z3.Solver.check
    pc = time.perf_counter          # not modelled by CrossHair (time.time/monotonic/process_time are)

    def check(self, *a):
        t = pc()
        try:
            return orig(self, *a)
        finally:
            calls['n'] += 1
            calls['t'] += pc() - t
    z3.Solver.check = check
    return calls


def analyse(fn, timeout, path_timeout):
    from crosshair.core import analyze_function, run_checkables
    from crosshair.options import AnalysisOptionSet, AnalysisKind
    import crosshair.core_and_libs  # noqa: F401  (registers the library models)
    stats = collections.Counter()
    kw = dict(per_condition_timeout=float(timeout), report_all=True, stats=stats,
              analysis_kind=[AnalysisKind.PEP316], max_uninteresting_iterations=0)
    if path_timeout:
        kw['per_path_timeout'] = float(path_timeout)
    opts = AnalysisOptionSet(**kw)
    t0 = time.perf_counter()
    msgs = run_checkables(analyze_function(fn, opts))
    return msgs, dict(stats), time.perf_counter() - t0


def classify(msgs):
    """Map CrossHair messages to (state, message)."""
    order = ['post_fail', 'exec_err', 'post_err', 'syntax_err', 'import_err', 'pre_unsat',
             'cannot_confirm', 'confirmed']
    best = None
    for m in msgs:
        st = m.state.value
        if best is None or order.index(st) < order.index(best[0]):
            best = (st, m.message, m.traceback)
    if best is None:
        return ('no_message', '', '')
    return best


def main():
    module, fname, params_json, timeout, path_timeout = sys.argv[1:6]
    params = json.loads(params_json)
    path_timeout = None if path_timeout == '-' else float(path_timeout)
    out = {'module': module, 'fn': fname, 'params': params}
    try:
        calls = _install_z3_counter()
        from vf import rt
        rt.set_params(params)
        mod = importlib.import_module(module)
        fn = getattr(mod, fname)
        doc = fn.__doc__ or ''
        out['pre'] = [l.strip() for l in doc.splitlines() if l.strip().startswith('pre:')]
        # (1) reachability twin
        rt.MODE = 'twin'
        msgs, stats, wall = analyse(fn, min(float(timeout), 30.0), path_timeout)
        st, msg, tb = classify(msgs)
        out['twin'] = {'state': st, 'message': msg, 'paths': stats.get('num_paths', 0), 'wall_s': round(wall, 2)}
        n0, t0 = calls['n'], calls['t']
        # (2) the condition itself
        rt.MODE = 'check'
        msgs, stats, wall = analyse(fn, timeout, path_timeout)
        st, msg, tb = classify(msgs)
        out['check'] = {'state': st, 'message': msg, 'traceback': tb[-2000:] if tb else '',
                        'paths': stats.get('num_paths', 0), 'wall_s': round(wall, 2),
                        'smt_queries': calls['n'] - n0, 'solver_s': round(calls['t'] - t0, 3),
                        'all_messages': [(m.state.value, m.message) for m in msgs][:5]}
    except BaseException as e:  # noqa: crash of the engine itself: inconclusive
        out['crash'] = '%s: %s' % (type(e).__name__, e)
        out['crash_tb'] = traceback.format_exc()[-3000:]
    sys.stdout.write('\n' + json.dumps(out) + '\n')
    sys.stdout.flush()


if __name__ == '__main__':
    main()
