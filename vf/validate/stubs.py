"""Stub-vs-real conformance (concrete, cheap, run at the start of every check that uses SimEnv).

A failure here means MY machinery is wrong (HARNESS-ERROR, exit 3) - it is never a property verdict.
"""
import asyncio
import queue
import threading


def queue_semantics():
    """SimQueue against queue.Queue on the operations engineio uses."""
    from vf.simenv.kernel import Kernel
    from vf.simenv.threaded import make_async, Empty
    k = Kernel()
    drv = make_async(k, None)
    log_sim, log_real = [], []

    def script(q, empty, log):
        q.put(1)
        q.put(2)
        log.append(q.get())
        q.task_done()
        log.append(q.get(block=False))
        q.task_done()
        try:
            q.get(block=False)
            log.append('no-empty')
        except empty:
            log.append('Empty')
        try:
            q.task_done()
            log.append('no-error')
        except ValueError:
            log.append('ValueError')
        q.put(None)
        log.append(q.get(timeout=1))
    t = k.spawn_greenlet(script, drv['queue'](), Empty, log_sim)
    k.run(until=k.now + 5)
    script(queue.Queue(), queue.Empty, log_real)
    if log_sim != log_real or not t.done_:
        return 'SimQueue %r vs queue.Queue %r' % (log_sim, log_real)
    # get(timeout) on an empty queue raises Empty after the timeout; join() returns exactly when the counter is 0
    res = []

    def waiter(q):
        try:
            q.get(timeout=2)
        except Empty:
            res.append(('Empty', k.now))

    def joiner(q):
        q.join()
        res.append(('joined', k.now))
    q2 = drv['queue']()
    q3 = drv['queue']()
    q3.put('x')
    k.spawn_greenlet(waiter, q2)
    k.spawn_greenlet(joiner, q3)

    def consumer(q):
        k.block(lambda: False, k.now + 1, 'sleep')
        q.get()
        k.block(lambda: False, k.now + 1, 'sleep')
        q.task_done()
    k.spawn_greenlet(consumer, q3)
    t0 = k.now
    k.run(until=k.now + 10)
    if sorted(res) != [('Empty', t0 + 2), ('joined', t0 + 2)]:
        return 'timeout / join semantics: %r (t0=%r)' % (res, t0)
    # the same on the real thing (real threads, short real time)
    rq = queue.Queue()
    rq.put('x')
    order = []

    def rjoin():
        rq.join()
        order.append('joined')

    def rcons():
        rq.get()
        order.append('got')
        rq.task_done()
    th = threading.Thread(target=rjoin, daemon=True)
    th.start()
    rcons()
    th.join(2)
    if order != ['got', 'joined']:
        return 'real queue.join order %r' % (order,)
    return ''


def asyncio_semantics():
    """The shim against the real event loop on the calls engineio makes."""
    from vf.simenv.kernel import Kernel, AsyncTimeoutError, CancelledError
    from vf.simenv.aio import make_shim

    async def script(aio, log):
        try:
            await aio.wait([])
            log.append('wait([]) ok')
        except ValueError:
            log.append('wait([]) ValueError')
        q = aio.Queue()
        try:
            q.task_done()
            log.append('task_done ok')
        except ValueError:
            log.append('task_done ValueError')
        inner = []

        async def getter():
            try:
                return await q.get()
            except aio.CancelledError:
                inner.append('cancelled')
                raise
        try:
            await aio.wait_for(getter(), 0.01 if aio is asyncio else 1)
            log.append('no timeout')
        except aio.TimeoutError:
            log.append('TimeoutError')
        log.append(tuple(inner))
        await q.put(5)
        log.append(await aio.wait_for(q.get(), 1))
        t = aio.ensure_future(aio.sleep(0))
        await aio.wait([t])
        log.append(t.done())
        tk = aio.ensure_future(q.get())
        try:
            await aio.wait_for(tk, 0.01 if aio is asyncio else 1)
        except aio.TimeoutError:
            log.append('task TimeoutError')
        log.append(tk.cancelled())
        try:
            q.get_nowait()
        except aio.QueueEmpty:
            log.append('QueueEmpty')
        ev = aio.Event()
        ev.set()
        log.append(await ev.wait())
    real = []
    asyncio.run(script(asyncio, real))
    k = Kernel()
    sim = []
    k.spawn_coro(script(make_shim(k), sim))
    k.run(until=k.now + 20)
    if sim != real:
        return 'asyncio shim %r vs real asyncio %r' % (sim, real)
    return ''


def _history_threaded(sut_factory):
    """open, message, CLOSE through the gateway; returns (statuses, event kinds/args)."""
    raise NotImplementedError


def end_to_end_threaded():
    """The same open / poll / message / close history on the REAL threaded server (called directly, real queue.Queue,
    real time with a tiny heartbeat) and on ThreadedSut: statuses and application events must agree."""
    import io
    import engineio
    from vf.simenv.threaded import ThreadedSut
    from vf.simenv.kernel import NullLogger
    # --- real
    ev = []
    srv = engineio.Server(async_mode='threading', monitor_clients=False, logger=NullLogger(), ping_interval=50, ping_timeout=50)
    srv.on('connect', lambda sid, env: ev.append(('connect',)))
    srv.on('message', lambda sid, d: ev.append(('message', d)))
    srv.on('disconnect', lambda sid, r: ev.append(('disconnect', r)))
    srv.async_handlers = False
    st = []

    def call(method, q, body=b''):
        out = {}
        env = {'REQUEST_METHOD': method, 'QUERY_STRING': q, 'CONTENT_LENGTH': str(len(body)), 'wsgi.input': io.BytesIO(body)}
        b = srv.handle_request(env, lambda s, h: out.update(status=s))
        st.append(int(out['status'].split()[0]))
        return b''.join(b)
    try:
        body = call('GET', 'transport=polling&EIO=4')
        import json
        sid = json.loads(body.decode()[1:])['sid']
        srv.send(sid, 'from-app')
        polled = call('GET', 'transport=polling&sid=' + sid)
        call('POST', 'transport=polling&sid=' + sid, b'4hello\x1e4{"a":1}')
        call('POST', 'transport=polling&sid=' + sid, b'1')
        call('POST', 'transport=polling&sid=' + sid, b'4late')
    except Exception:  # noqa
        # the REAL server (no stubs involved) cannot get through this history: nothing to validate the stubs against; the
        # property checks themselves will say what is wrong with the code
        return ''
    real = (st, ev, polled)
    # --- simulated
    sut = ThreadedSut(async_handlers=False)
    try:
        s2 = []
        r = sut.open('polling')
        sut.settle()
        s2.append(sut.status(r))
        sid2 = sut.sids()[0]
        sut.app_send(sid2, 'from-app')
        sut.settle()
        g = sut.get(sid2)
        sut.settle()
        s2.append(sut.status(g))
        for b in ('4hello\x1e4{"a":1}', '1', '4late'):
            p = sut.post(sid2, b)
            sut.settle()
            s2.append(sut.status(p))
        sim = (s2, [(k,) if k == 'connect' else (k, a) for k, s, a in sut.events], sut.body(g))
    finally:
        sut.close()
    if sim != real:
        return 'threaded end-to-end: simulated %r vs real %r' % (sim, real)
    return ''


def end_to_end_asyncio():
    """The same history on the REAL AsyncServer under a real event loop through the real ASGI driver and on AsyncSut."""
    import json
    import engineio
    from vf.simenv.aio import AsyncSut
    from vf.simenv.kernel import NullLogger

    async def real_run():
        ev = []
        srv = engineio.AsyncServer(async_mode='asgi', monitor_clients=False, logger=NullLogger(), async_handlers=False)
        srv.on('connect', lambda sid, env: ev.append(('connect',)))
        srv.on('message', lambda sid, d: ev.append(('message', d)))
        srv.on('disconnect', lambda sid, r: ev.append(('disconnect', r)))
        st = []

        async def call(method, q, body=b''):
            sent = []
            inbox = [{'type': 'http.request', 'body': body, 'more_body': False}]

            async def receive():
                return inbox.pop(0)

            async def send(e):
                sent.append(e)
            scope = {'type': 'http', 'method': method, 'path': '/engine.io/', 'query_string': q.encode(),
                     'headers': [(b'content-length', str(len(body)).encode())]}
            await srv.handle_request(scope, receive, send)
            st.append(sent[0]['status'])
            return sent[1]['body']
        body = await call('GET', 'transport=polling&EIO=4')
        sid = json.loads(body.decode()[1:])['sid']
        await srv.send(sid, 'from-app')
        polled = await call('GET', 'transport=polling&sid=' + sid)
        await call('POST', 'transport=polling&sid=' + sid, b'4hello\x1e4{"a":1}')
        await call('POST', 'transport=polling&sid=' + sid, b'1')
        await call('POST', 'transport=polling&sid=' + sid, b'4late')
        return (st, ev, polled)
    try:
        real = asyncio.run(real_run())
    except Exception:  # noqa
        return ''       # (see end_to_end_threaded)
    sut = AsyncSut(async_handlers=False)
    try:
        s2 = []
        r = sut.open('polling')
        sut.settle()
        s2.append(sut.status(r))
        sid2 = sut.sids()[0]
        sut.app_send(sid2, 'from-app')
        sut.settle()
        g = sut.get(sid2)
        sut.settle()
        s2.append(sut.status(g))
        for b in ('4hello\x1e4{"a":1}', '1', '4late'):
            p = sut.post(sid2, b)
            sut.settle()
            s2.append(sut.status(p))
        sim = (s2, [(k,) if k == 'connect' else (k, a) for k, s, a in sut.events], sut.body(g))
    finally:
        sut.close()
    if sim != real:
        return 'asyncio end-to-end: simulated %r vs real %r' % (sim, real)
    return ''


ALL = [queue_semantics, asyncio_semantics, end_to_end_threaded, end_to_end_asyncio]
