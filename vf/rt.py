"""Runtime helpers shared by every harness.

* ``P``      – namespace holding the parameters (bounds, partition selectors) of the
               condition being analysed; ``pre:`` lines refer to ``P.<name>`` so the same
               harness source serves the quick and the thorough tier.
* ``cond``   – decorator registering a harness function with its per-tier parameters.
* ``verdict``– every harness returns ``verdict(msg)``; in *twin* mode (reachability
               witness) it answers ``'REACHED'`` so that the postcondition ``_ == ''``
               must be refuted on any path that gets to the oracle.
* ``fail``   – builds a clause string ``'<CLAUSE-ID>: detail'`` unless a committed known
               finding waives exactly that clause in exactly that state class.
"""
import itertools
import json
import os
import types

P = types.SimpleNamespace()
MODE = 'check'          # 'check' | 'twin'
REGISTRY = {}           # module name -> [CondSpec]
WAIVED = []             # (finding id, clause, state) collected during a concrete replay
UNTRACED_CALLS = [0]    # how often untraced() was entered (tells selector-enumeration conditions from symbolic ones)

_HERE = os.path.dirname(os.path.dirname(os.path.abspath(__file__)))
KNOWN_FINDINGS_FILE = os.path.join(_HERE, 'known_findings.json')


class CondSpec:
    def __init__(self, fn, tiers):
        self.fn = fn
        self.name = fn.__name__
        self.tiers = tiers

    def instances(self, tier):
        """Expand the tier's parameter dict into concrete obligations.

        ``parts`` maps a parameter name to the list of values it is partitioned over; the
        union of the parts is the bound of the un-partitioned condition."""
        spec = self.tiers.get(tier)
        if spec is None:
            return []
        spec = dict(spec)
        parts = spec.pop('parts', {})
        timeout = spec.pop('timeout', 60)
        path_timeout = spec.pop('path_timeout', None)
        keys = sorted(parts)
        out = []
        for combo in itertools.product(*[parts[k] for k in keys]):
            params = dict(spec)
            params.update(dict(zip(keys, combo)))
            label = self.name + ''.join('[%s=%s]' % (k, v) for k, v in zip(keys, combo))
            out.append({'name': label, 'fn': self.name, 'params': params,
                        'timeout': timeout, 'path_timeout': path_timeout})
        return out


def cond(**tiers):
    """Register a harness. ``quick=dict(...)`` / ``thorough=dict(...)`` give the values put in
    ``P`` for that tier (+ ``timeout``, ``path_timeout``, ``parts``)."""
    def deco(fn):
        REGISTRY.setdefault(fn.__module__, []).append(CondSpec(fn, tiers))
        return fn
    return deco


def set_params(params):
    for k in list(vars(P)):
        delattr(P, k)
    for k, v in params.items():
        setattr(P, k, v)


def verdict(msg):
    if MODE == 'twin':
        return 'REACHED'
    return msg


# --------------------------------------------------------------------------- known findings

_findings = None


def findings():
    global _findings
    if _findings is None:
        try:
            with open(KNOWN_FINDINGS_FILE) as f:
                _findings = json.load(f)
        except FileNotFoundError:
            _findings = {'known': [], 'fixed': []}
    return _findings


def waived(prop, clause, state):
    """Return the id of the known finding that covers (clause, state) or None."""
    if os.environ.get('VF_NO_WAIVERS') == '1':
        return None
    for f in findings().get('known', []):
        if prop not in f.get('properties', []):
            continue
        if f.get('clause') != clause:
            continue
        cls = f.get('state_class', {})
        if all(_match(state.get(k), v) for k, v in cls.items()):
            return f['id']
    return None


def _match(actual, wanted):
    if isinstance(wanted, list):
        return actual in wanted
    return actual == wanted


def fail(prop, clause, detail='', **state):
    """Clause string for a violated clause, or '' when a known finding waives it."""
    fid = waived(prop, clause, state)
    if fid is not None:
        WAIVED.append((fid, clause, state))
        return ''
    st = ' '.join('%s=%r' % kv for kv in sorted(state.items()))
    return '%s: %s%s' % (clause, detail, (' {' + st + '}') if st else '')


_RANGE = tuple(str(i) for i in range(64))      # strings: indexing a tuple of ints may yield a symbolic int again


def _conc_int(a, hi=63):
    """Concrete value of a selector in 0..hi by bisection (each comparison is one solver fork)."""
    lo = 0
    while lo < hi:
        mid = (lo + hi) // 2
        if a <= mid:
            hi = mid
        else:
            lo = mid + 1
    if a != lo:
        raise ValueError('selector outside 0..63')
    return lo


def untraced(fn, *args):
    """Run ``fn(*args)`` concretely: the (symbolic) selectors are made concrete first - by indexing a constant tuple,
    which CrossHair decides with a balanced solver fan-out, so every value the precondition allows is still visited,
    one per path - and the body then runs without CrossHair's tracing overhead.
    Only for conditions whose inputs are small non-negative table selectors / booleans."""
    UNTRACED_CALLS[0] += 1
    try:
        from crosshair.tracers import NoTracing, is_tracing
    except ImportError:  # pragma: no cover
        return fn(*args)
    if not is_tracing():
        return _no_livelock(fn, args)
    conc = []
    for a in args:
        if isinstance(a, bool):
            conc.append(True if a else False)
        elif isinstance(a, int):
            conc.append(_conc_int(a))
        else:
            raise TypeError('untraced() takes selectors only')
    with NoTracing():
        if os.environ.get('VF_ISOLATE') == '1':
            return _isolated(fn, conc)
        return _no_livelock(fn, conc)


def _isolated(fn, conc):
    """Run one scenario in a forked child, so that nothing the code under test leaves behind in the process (class- or
    module-level state) reaches the scenarios of the other tuples. Used by the runner when a counterexample found in the
    shared process does not reproduce in a fresh one."""
    import json as _json
    r_, w_ = os.pipe()
    pid = os.fork()
    if pid == 0:
        try:
            os.close(r_)
            try:
                res = _no_livelock(fn, conc)
            except BaseException as e:  # noqa
                res = 'EXC %s: %s' % (type(e).__name__, e)
            os.write(w_, _json.dumps(res if isinstance(res, str) else repr(res)).encode('utf-8'))
        finally:
            os._exit(0)
    os.close(w_)
    chunks = []
    while True:
        b = os.read(r_, 65536)
        if not b:
            break
        chunks.append(b)
    os.close(r_)
    os.waitpid(pid, 0)
    data = b''.join(chunks)
    return _json.loads(data.decode('utf-8')) if data else 'EXC child produced no result'


def _no_livelock(fn, args):
    """A task of the code under test that spins without ever blocking is reported as a clause, not as a crash."""
    from vf.simenv.kernel import Livelock
    try:
        return fn(*args)
    except Livelock as e:
        return 'LIVELOCK: %s' % e
