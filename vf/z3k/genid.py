"""AST -> z3 bit-vector encoding of BaseServer.generate_id (regenerated from /repo's current source every run).

The evaluator supports exactly the node shapes the function uses today; anything else raises
``Unsupported`` and the C17 queries become *inconclusive* (never "failed").

Value domain of the evaluator
  Bytes(bv, n)      n bytes as one 8n-bit vector, big-endian (first byte = most significant)
  IntV(bv)          a Python int known to fit 64 bits (z3 64-bit vector)
  Chars([c...])     a text: list of 8-bit vectors, one per (ASCII) character
  concrete Python values for literals
"""
import ast
import inspect
import textwrap

import z3

B64 = 'ABCDEFGHIJKLMNOPQRSTUVWXYZabcdefghijklmnopqrstuvwxyz0123456789+/'
W = 64


class Unsupported(Exception):
    pass


class Bytes:
    def __init__(self, bv, n):
        self.bv, self.n = bv, n


class IntV:
    def __init__(self, bv):
        self.bv = bv


class Chars:
    def __init__(self, cs):
        self.cs = cs


class Encoding:
    """Result of translating the function once."""
    def __init__(self):
        self.random_calls = []     # [(qualified name, nbytes, z3 var)]
        self.ret = None            # Chars
        self.seq_in = None         # z3 BV64: self.sequence_number before the call
        self.seq_out = None        # z3 BV64 after the call (or seq_in if never assigned)
        self.nodes = 0


def _b64_char(v6):
    out = z3.BitVecVal(ord('?'), 8)
    for i in reversed(range(64)):
        out = z3.If(v6 == i, z3.BitVecVal(ord(B64[i]), 8), out)
    return out


def _b64encode(b):
    if b.n % 3 != 0:
        raise Unsupported('base64 of %d bytes (padding not modelled)' % b.n)
    bits = 8 * b.n
    return Bytes_as_chars([_b64_char(z3.Extract(bits - 1 - 6 * i, bits - 6 - 6 * i, b.bv)) for i in range(bits // 6)])


def Bytes_as_chars(cs):
    # b64encode returns ASCII bytes; modelled directly as the character list (decode('utf-8') is the identity on ASCII)
    c = Chars(cs)
    c.is_bytes = True
    return c


class Translator:
    def __init__(self, fn, tag, owner=None):
        self.owner = owner
        src = textwrap.dedent(inspect.getsource(fn))
        self.tree = ast.parse(src).body[0]
        if not isinstance(self.tree, ast.FunctionDef):
            raise Unsupported('not a plain function')
        self.tag = tag
        self.enc = Encoding()
        self.enc.seq_in = z3.BitVec('seq_' + tag, W)
        self.attrs = {'sequence_number': IntV(self.enc.seq_in)}
        self.locals = {}

    def run(self):
        for st in self.tree.body:
            self.enc.nodes += 1
            if isinstance(st, ast.Expr) and isinstance(st.value, ast.Constant) and isinstance(st.value.value, str):
                continue  # docstring
            if isinstance(st, ast.Assign):
                if len(st.targets) != 1:
                    raise Unsupported('multi-target assignment')
                v = self.ev(st.value)
                t = st.targets[0]
                if isinstance(t, ast.Name):
                    self.locals[t.id] = v
                elif isinstance(t, ast.Attribute) and isinstance(t.value, ast.Name) and t.value.id == 'self':
                    self.attrs[t.attr] = v
                else:
                    raise Unsupported('assignment target ' + ast.dump(t))
            elif isinstance(st, ast.Return):
                v = self.ev(st.value)
                if not isinstance(v, Chars) or getattr(v, 'is_bytes', False):
                    raise Unsupported('return value is not text')
                self.enc.ret = v
                break
            else:
                raise Unsupported('statement ' + type(st).__name__)
        if self.enc.ret is None:
            raise Unsupported('no return')
        so = self.attrs.get('sequence_number')
        if not isinstance(so, IntV):
            raise Unsupported('sequence_number is not an int')
        self.enc.seq_out = so.bv
        return self.enc

    # -- expressions
    def ev(self, n):
        self.enc.nodes += 1
        if isinstance(n, ast.Constant):
            return n.value
        if isinstance(n, ast.Name):
            if n.id in self.locals:
                return self.locals[n.id]
            raise Unsupported('name ' + n.id)
        if isinstance(n, ast.Attribute):
            if isinstance(n.value, ast.Name) and n.value.id == 'self':
                if n.attr in self.attrs:
                    return self.attrs[n.attr]
                v = getattr(self.owner, n.attr, None) if self.owner is not None else None
                if isinstance(v, int) and not isinstance(v, bool):
                    return v            # class-level integer constant, read from the class the method belongs to
                raise Unsupported('self.' + n.attr)
            raise Unsupported('attribute ' + ast.dump(n))
        if isinstance(n, ast.BinOp):
            return self.binop(n.op, self.ev(n.left), self.ev(n.right))
        if isinstance(n, ast.Call):
            return self.call(n)
        if isinstance(n, ast.Subscript):
            return self.subscript(self.ev(n.value), n.slice)
        raise Unsupported('expression ' + type(n).__name__)

    def subscript(self, v, sl):
        """bytes[i] / bytes[a:b] with constant bounds (the byte string has a known length)."""
        if not isinstance(v, Bytes):
            raise Unsupported('subscript of a non-bytes value')

        def const(x, default):
            if x is None:
                return default
            c = self.ev(x)
            if isinstance(c, int) and not isinstance(c, bool):
                return c
            raise Unsupported('non-constant subscript')
        n_ = v.n
        if isinstance(sl, ast.Slice):
            if sl.step is not None:
                raise Unsupported('slice step')
            lo, hi = const(sl.lower, 0), const(sl.upper, n_)
            lo = max(0, lo + n_ if lo < 0 else lo)
            hi = min(n_, hi + n_ if hi < 0 else hi)
            if hi <= lo:
                raise Unsupported('empty slice')
            # byte i (0 = first = most significant) occupies bits 8*(n-1-i)+7 .. 8*(n-1-i)
            return Bytes(z3.Extract(8 * (n_ - lo) - 1, 8 * (n_ - hi), v.bv), hi - lo)
        i = const(sl, None)
        i = i + n_ if i < 0 else i
        if not 0 <= i < n_:
            raise Unsupported('index out of range')
        return IntV(z3.ZeroExt(W - 8, z3.Extract(8 * (n_ - i) - 1, 8 * (n_ - i - 1), v.bv)))

    def as_int(self, v):
        if isinstance(v, IntV):
            return v.bv
        if isinstance(v, int) and not isinstance(v, bool) and 0 <= v < 2 ** (W - 1):
            return z3.BitVecVal(v, W)
        raise Unsupported('int operand %r' % (v,))

    def binop(self, op, a, b):
        if isinstance(op, ast.Add):
            if isinstance(a, Bytes) and isinstance(b, Bytes):
                return Bytes(z3.Concat(a.bv, b.bv), a.n + b.n)
            if isinstance(a, Chars) and isinstance(b, Chars) and \
                    getattr(a, 'is_bytes', False) == getattr(b, 'is_bytes', False):
                c = Chars(a.cs + b.cs)
                c.is_bytes = getattr(a, 'is_bytes', False)
                return c
            return IntV(self.as_int(a) + self.as_int(b))
        if isinstance(op, ast.BitAnd):
            return IntV(self.as_int(a) & self.as_int(b))
        if isinstance(op, ast.BitXor):
            return IntV(self.as_int(a) ^ self.as_int(b))
        if isinstance(op, ast.BitOr):
            return IntV(self.as_int(a) | self.as_int(b))
        if isinstance(op, (ast.LShift, ast.RShift)) and isinstance(b, int) and 0 <= b < W:
            return IntV(self.as_int(a) << b if isinstance(op, ast.LShift) else z3.LShR(self.as_int(a), b))
        if isinstance(op, ast.Mod):
            if isinstance(b, int) and b > 0:
                return IntV(z3.URem(self.as_int(a), self.as_int(b)))
            raise Unsupported('modulus by non-constant')
        if isinstance(op, ast.Sub):
            return IntV(self.as_int(a) - self.as_int(b))
        raise Unsupported('operator ' + type(op).__name__)

    def call(self, n):
        f = n.func
        args = [self.ev(a) for a in n.args]
        kwargs = {k.arg: self.ev(k.value) for k in n.keywords}
        if isinstance(f, ast.Attribute) and isinstance(f.value, ast.Name) and f.value.id not in self.locals \
                and f.value.id != 'self':
            qual = f.value.id + '.' + f.attr
            if qual == 'secrets.token_bytes':
                if len(args) != 1 or not isinstance(args[0], int) or kwargs:
                    raise Unsupported('token_bytes arguments')
                nb = args[0]
                var = z3.BitVec('rnd%d_%s' % (len(self.enc.random_calls), self.tag), 8 * nb)
                self.enc.random_calls.append((qual, nb, var))
                return Bytes(var, nb)
            if qual == 'secrets.token_urlsafe':
                if len(args) != 1 or not isinstance(args[0], int) or kwargs or args[0] % 3 != 0:
                    raise Unsupported('token_urlsafe arguments')
                nb = args[0]
                var = z3.BitVec('rnd%d_%s' % (len(self.enc.random_calls), self.tag), 8 * nb)
                self.enc.random_calls.append((qual, nb, var))
                c = _b64encode(Bytes(var, nb))
                c = self._replace(self._replace(c, '+', '-'), '/', '_')
                return Chars(list(c.cs))
            if qual == 'int.from_bytes':
                order = args[1] if len(args) > 1 else kwargs.get('byteorder', 'big')
                if not args or not isinstance(args[0], Bytes) or order not in ('big', 'little') or args[0].n > 7:
                    raise Unsupported('int.from_bytes arguments')
                b_ = args[0]
                if order == 'little':
                    bs = [z3.Extract(8 * i + 7, 8 * i, b_.bv) for i in range(b_.n)]
                    bv = z3.Concat(*bs) if len(bs) > 1 else bs[0]
                else:
                    bv = b_.bv
                return IntV(z3.ZeroExt(W - 8 * b_.n, bv))
            if qual == 'base64.b64encode':
                if len(args) != 1 or kwargs or not isinstance(args[0], Bytes):
                    raise Unsupported('b64encode arguments')
                return _b64encode(args[0])
            if qual == 'base64.urlsafe_b64encode':
                if len(args) != 1 or kwargs or not isinstance(args[0], Bytes):
                    raise Unsupported('urlsafe_b64encode arguments')
                c = _b64encode(args[0])
                return self._replace(self._replace(c, '+', '-'), '/', '_')
            raise Unsupported('call ' + qual)
        if isinstance(f, ast.Attribute):
            recv = self.ev(f.value)
            m = f.attr
            if m == 'to_bytes' and isinstance(recv, IntV):
                length = args[0] if args else kwargs.get('length', 1)
                order = args[1] if len(args) > 1 else kwargs.get('byteorder', 'big')
                if not isinstance(length, int) or order not in ('big', 'little') or not 1 <= length <= 7:
                    raise Unsupported('to_bytes arguments')
                bs = [z3.Extract(8 * i + 7, 8 * i, recv.bv) for i in range(length)]   # little-endian byte list
                if order == 'big':
                    bs = bs[::-1]
                out = Bytes(z3.Concat(*bs) if len(bs) > 1 else bs[0], length)
                # Python raises OverflowError when the int does not fit: recorded as a side condition
                out.fits = z3.ULT(recv.bv, z3.BitVecVal(1 << (8 * length), W))
                self.enc.fits = getattr(self.enc, 'fits', []) + [out.fits]
                return out
            if m == 'decode' and isinstance(recv, Chars) and getattr(recv, 'is_bytes', False):
                if args and args[0] not in ('utf-8', 'ascii', 'utf8', 'latin-1'):
                    raise Unsupported('decode codec')
                return Chars(list(recv.cs))
            if m == 'replace' and isinstance(recv, Chars):
                if len(args) != 2 or not all(isinstance(a, (str, bytes)) and len(a) == 1 for a in args):
                    raise Unsupported('replace arguments')
                a0 = args[0] if isinstance(args[0], str) else args[0].decode('latin-1')
                a1 = args[1] if isinstance(args[1], str) else args[1].decode('latin-1')
                return self._replace(recv, a0, a1)
            raise Unsupported('method ' + m)
        raise Unsupported('call shape')

    def _replace(self, chars, c1, c2):
        out = Chars([z3.If(c == ord(c1), z3.BitVecVal(ord(c2), 8), c) for c in chars.cs])
        out.is_bytes = getattr(chars, 'is_bytes', False)
        return out


def translate(fn, tag, owner=None):
    return Translator(fn, tag, owner).run()


def evaluate(enc, rnd_values, seq):
    """Concrete evaluation of the encoding: returns (id string, next counter)."""
    subs = [(enc.seq_in, z3.BitVecVal(seq, W))]
    for (_, nb, var), val in zip(enc.random_calls, rnd_values):
        subs.append((var, z3.BitVecVal(int.from_bytes(val, 'big'), 8 * nb)))
    chars = [z3.simplify(z3.substitute(c, *subs)) for c in enc.ret.cs]
    text = ''.join(chr(c.as_long()) for c in chars)
    nxt = z3.simplify(z3.substitute(enc.seq_out, *subs)).as_long()
    return text, nxt
