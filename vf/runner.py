"""Condition scheduler, verdict mapping, replay, evidence.

usage: python -m vf.runner <PROPERTY-ID> [--tier quick|thorough] [--replay FILE] [--only SUBSTR]
"""
import argparse
import concurrent.futures
import importlib
import json
import os
import subprocess
import sys
import time

from vf import rt
from vf.replay import parse_call

ROOT = os.path.dirname(os.path.dirname(os.path.abspath(__file__)))
PY = sys.executable
EXIT_OK, EXIT_VIOLATION, EXIT_HARNESS = 0, 1, 3


def _json_tail(text):
    for line in reversed(text.strip().splitlines()):
        line = line.strip()
        if line.startswith('{'):
            try:
                return json.loads(line)
            except ValueError:
                continue
    return None


def run_worker(module, ob, isolate=False):
    cmd = [PY, '-m', 'vf.worker', module, ob['fn'], json.dumps(ob['params']), str(ob['timeout']),
           str(ob['path_timeout']) if ob.get('path_timeout') else '-']
    hard = 30 + ob['timeout'] * 1.5 + 90
    t0 = time.time()
    env = dict(os.environ)
    if isolate:
        env['VF_ISOLATE'] = '1'
    try:
        p = subprocess.run(cmd, cwd=ROOT, capture_output=True, text=True, timeout=hard, env=env)
        res = _json_tail(p.stdout)
        if res is None:
            res = {'crash': 'worker produced no result (rc=%s): %s' % (p.returncode, (p.stderr or '')[-600:])}
    except subprocess.TimeoutExpired:
        res = {'crash': 'worker exceeded hard wall limit of %ds' % hard}
    res['wall_s'] = round(time.time() - t0, 2)
    return res


def run_replay(module, fn, params, call_src, profile=False, twin=False, no_waivers=False, timeout=300):
    cmd = [PY, '-m', 'vf.replay', module, fn, json.dumps(params), call_src]
    if profile:
        cmd.append('--profile')
    if twin:
        cmd.append('--twin')
    env = dict(os.environ)
    if no_waivers:
        env['VF_NO_WAIVERS'] = '1'
    try:
        p = subprocess.run(cmd, cwd=ROOT, capture_output=True, text=True, timeout=timeout, env=env)
    except subprocess.TimeoutExpired:
        return {'exception': 'ReplayTimeout: concrete replay did not finish in %ds' % timeout}
    res = _json_tail(p.stdout)
    if res is None:
        res = {'error': 'replay produced no result (rc=%s): %s' % (p.returncode, (p.stderr or '')[-600:])}
    return res


def failing(res):
    """Clause text if a concrete replay result shows a failure, else None."""
    if 'exception' in res:
        return 'EXC ' + res['exception']
    r = res.get('result')
    if isinstance(r, str) and r != '' and r != 'REACHED':
        return r
    return None


def write_replay(prop, n, module, ob, call_src, clause, res):
    d = os.path.join(ROOT, 'replays')
    os.makedirs(d, exist_ok=True)
    path = os.path.join(d, '%s-%d.json' % (prop, n))
    with open(path, 'w') as f:
        json.dump({'property': prop, 'module': module, 'fn': ob['fn'], 'params': ob['params'],
                   'call': call_src, 'clause': clause, 'observed': res}, f, indent=1, default=repr)
    return path


def do_replay_file(path):
    with open(path) as f:
        r = json.load(f)
    res = run_replay(r['module'], r['fn'], r['params'], r['call'])
    clause = failing(res)
    print(json.dumps(res, indent=1, default=repr))
    if clause:
        print('VIOLATION property=%s replay=%s' % (r['property'], path))
        print('  clause: ' + clause)
        return EXIT_VIOLATION
    print('replay no longer fails')
    return EXIT_OK


def main():
    ap = argparse.ArgumentParser()
    ap.add_argument('prop')
    ap.add_argument('--tier', default=os.environ.get('VERIF_TIER', 'quick'))
    ap.add_argument('--replay')
    ap.add_argument('--only')
    ap.add_argument('--jobs', type=int, default=int(os.environ.get('VF_JOBS', os.cpu_count() or 4)))
    a = ap.parse_args()
    if a.replay:
        sys.exit(do_replay_file(a.replay))
    prop = a.prop.upper()
    tier = a.tier
    t_start = time.time()
    module = 'vf.props.' + prop.lower()
    mod = importlib.import_module(module)
    obligations = []
    for spec in rt.REGISTRY.get(module, []):
        obligations += spec.instances(tier)
    if a.only:
        obligations = [o for o in obligations if a.only in o['name']]
    harness_errors = []
    violations = []
    inconclusive = []
    discharged = []
    samples = []
    functions = set()
    paths = queries = 0
    solver_s = 0.0
    bounds = {}
    extra_notes = {}

    # -- stub validation (concrete; failure = my machinery is wrong, never a property verdict)
    for v in getattr(mod, 'VALIDATE', []):
        try:
            msg = v()
        except Exception as e:  # noqa
            msg = '%s: %s' % (type(e).__name__, e)
        if msg:
            harness_errors.append('stub validation %s: %s' % (getattr(v, '__name__', v), msg))
            print('HARNESS-ERROR stub validation %s: %s' % (getattr(v, '__name__', v), msg))
    if harness_errors:
        finish(prop, tier, t_start, obligations, discharged, inconclusive, violations, harness_errors,
               samples, functions, paths, queries, solver_s, bounds, mod, extra_notes)
        sys.exit(EXIT_HARNESS)

    # -- known findings: replay each listed witness concretely, with waivers off
    known_clauses = []
    for f in rt.findings().get('known', []):
        if prop not in f.get('properties', []):
            continue
        w = f.get('witness')
        if not w:
            continue
        res = run_replay(w['module'], w['fn'], w.get('params', {}), w['call'], no_waivers=True)
        clause = failing(res)
        if clause and not clause.startswith(f.get('clause', '')):
            # the witness fails, but not with the clause the finding is about (e.g. the harness signature changed and the
            # stored call no longer fits): that is a defect of the machinery, not a reproduction of the finding
            harness_errors.append('witness of known finding %s is stale: %s' % (f['id'], clause[:200]))
            print('HARNESS-ERROR witness of known finding %s is stale: %s' % (f['id'], clause[:200]))
        elif clause:
            print('KNOWN-FINDING: property=%s %s [%s] (witness %s still fails: %s)' % (
                prop, f['text'], f['id'], w['call'], clause[:160]))
            known_clauses.append(f['id'])
        else:
            print('note: known finding %s no longer reproduces on this tree (%s)' % (f['id'], res))

    # -- in-process engines other than CrossHair (e.g. the z3 bit-vector queries of C17)
    extra = getattr(mod, 'EXTRA', None)
    extra_results = extra(tier) if extra else []

    # -- CrossHair obligations, one process each
    results = {}
    with concurrent.futures.ThreadPoolExecutor(max_workers=a.jobs) as ex:
        futs = {ex.submit(run_worker, module, ob): ob for ob in obligations}
        for fut in concurrent.futures.as_completed(futs):
            ob = futs[fut]
            results[ob['name']] = fut.result()

    nviol = 0
    for ob in obligations:
        name = ob['name']
        res = results[name]
        bounds[name] = {'pre': res.get('pre', []), 'params': ob['params']}
        if 'crash' in res:
            inconclusive.append({'condition': name, 'reason': 'engine: ' + res['crash'][:300]})
            continue
        tw, ck = res['twin'], res['check']
        bounds[name].update(timeout_s=ob['timeout'], wall_s=ck.get('wall_s'), paths=ck['paths'], smt_queries=ck['smt_queries'],
                            solver_s=ck['solver_s'])
        paths += ck['paths'] + tw['paths']
        queries += ck['smt_queries']
        solver_s += ck['solver_s']
        # reachability witness
        reached = False
        if tw['state'] == 'post_fail' and "returns 'REACHED'" in tw['message']:
            try:
                call_src = parse_call(tw['message'], ob['fn'])
                rr = run_replay(module, ob['fn'], ob['params'], call_src, profile=True, twin=True)
                if rr.get('result') == 'REACHED':
                    reached = True
                    bounds[name]['mode'] = ('selector enumeration: the solver enumerates every tuple the pre: admits, the scenario '
                                            'runs concretely on the real code per tuple') if rr.get('untraced') else \
                        'symbolic: the symbolic arguments flow through the real code, z3 decides every branch'
                    functions.update(rr.get('functions', []))
                    if len(samples) < 40:
                        samples.append({'condition': name, 'case': call_src, 'kind': 'reachability witness'})
                else:
                    harness_errors.append('%s: twin witness %s does not replay: %s' % (name, call_src, rr))
            except Exception as e:  # noqa
                harness_errors.append('%s: twin witness unparsable: %s' % (name, e))
        st = ck['state']
        if st == 'confirmed':
            if reached:
                discharged.append(name)
            else:
                inconclusive.append({'condition': name,
                                     'reason': 'vacuous: reachability twin came back %s' % tw['state']})
            continue
        if st in ('post_fail', 'exec_err', 'post_err'):
            if 'NotDeterministic' in ck['message']:
                inconclusive.append({'condition': name, 'reason': 'engine: NotDeterministic'})
                continue
            try:
                call_src = parse_call(ck['message'], ob['fn'])
            except Exception as e:  # noqa
                harness_errors.append('%s: counterexample unparsable: %s / %s' % (name, e, ck['message'][:300]))
                continue
            rr = run_replay(module, ob['fn'], ob['params'], call_src)
            clause = failing(rr)
            if not clause and rr.get('untraced') and not ob.get('_isolated'):
                # the counterexample was found in a process that had already run other scenarios and does not reproduce in a
                # fresh one: the code under test keeps state across scenarios. Search again with every scenario isolated in
                # its own (forked) process, so that any counterexample found is self-contained.
                print('note: %s: counterexample %s does not reproduce in a fresh process; repeating the search with isolated '
                      'scenarios' % (name, call_src))
                ob2 = dict(ob, _isolated=True, timeout=ob['timeout'] * 2)
                res2 = run_worker(module, ob2, isolate=True)
                ck2 = res2.get('check', {}) if 'crash' not in res2 else {}
                if ck2.get('state') in ('post_fail', 'exec_err', 'post_err'):
                    try:
                        call_src = parse_call(ck2['message'], ob['fn'])
                        rr = run_replay(module, ob['fn'], ob['params'], call_src)
                        clause = failing(rr)
                        ck = ck2
                    except Exception as e:  # noqa
                        pass
                elif ck2.get('state') == 'confirmed':
                    inconclusive.append({'condition': name, 'reason': 'order-dependent: a counterexample (%s) appeared only after other '
                                         'scenarios had run in the same process; with isolated scenarios the condition is confirmed' % call_src})
                    continue
            if clause:
                nviol += 1
                path = write_replay(prop, nviol, module, ob, call_src, clause, rr)
                violations.append({'condition': name, 'case': call_src, 'clause': clause, 'replay': path})
                samples.append({'condition': name, 'case': call_src, 'kind': 'counterexample', 'clause': clause})
                print('VIOLATION property=%s replay=%s' % (prop, path))
                print('  condition %s: %s' % (name, call_src))
                print('  clause: %s' % clause[:400])
            else:
                harness_errors.append('%s: counterexample %s (%s) does not reproduce concretely: %s' % (
                    name, call_src, ck['message'][:200], rr))
            continue
        reason = {'cannot_confirm': 'not confirmed within %ss (explored %d paths)' % (ob['timeout'], ck['paths']),
                  'pre_unsat': 'unable to meet precondition within budget'}.get(st, st + ': ' + ck['message'][:200])
        inconclusive.append({'condition': name, 'reason': reason})

    for er in extra_results:
        name = er['name']
        obligations.append({'name': name, 'fn': name, 'params': er.get('params', {}), 'timeout': 0})
        bounds[name] = {'pre': er.get('bound', []), 'params': er.get('params', {})}
        queries += er.get('smt_queries', 0)
        solver_s += er.get('solver_s', 0.0)
        functions.update(er.get('functions', []))
        if er.get('sample') is not None and len(samples) < 60:
            samples.append({'condition': name, 'case': er['sample'], 'kind': er.get('kind', 'smt query')})
        if er['state'] == 'confirmed':
            discharged.append(name)
        elif er['state'] == 'violated':
            nviol += 1
            path = os.path.join(ROOT, 'replays', '%s-%d.json' % (prop, nviol))
            os.makedirs(os.path.dirname(path), exist_ok=True)
            with open(path, 'w') as f:
                json.dump({'property': prop, 'extra': True, 'condition': name, 'clause': er.get('clause'),
                           'witness': er.get('witness')}, f, indent=1, default=repr)
            violations.append({'condition': name, 'case': er.get('witness'), 'clause': er.get('clause'),
                               'replay': path})
            print('VIOLATION property=%s replay=%s' % (prop, path))
            print('  condition %s: %s' % (name, er.get('clause')))
        elif er['state'] == 'harness_error':
            harness_errors.append('%s: %s' % (name, er.get('reason')))
        else:
            inconclusive.append({'condition': name, 'reason': er.get('reason', 'unknown')})

    for h in harness_errors:
        print('HARNESS-ERROR ' + h[:600])
    for i in inconclusive:
        print('INCONCLUSIVE %s: %s' % (i['condition'], i['reason']))
    # regression to inconclusive against the committed baseline
    try:
        with open(os.path.join(ROOT, 'baseline_verdicts.json')) as f:
            base = json.load(f).get(prop, {}).get(tier, [])
    except (OSError, ValueError):
        base = []
    inc_names = {i['condition'] for i in inconclusive}
    for n in base:
        if n in inc_names:
            print('REGRESSED-TO-INCONCLUSIVE %s (was confirmed on the baseline tree)' % n)
    extra_notes['known_findings_reproduced'] = known_clauses
    finish(prop, tier, t_start, obligations, discharged, inconclusive, violations, harness_errors,
           samples, functions, paths, queries, solver_s, bounds, mod, extra_notes)
    print('%s tier=%s obligations=%d discharged=%d inconclusive=%d violations=%d harness_errors=%d '
          'paths=%d smt_queries=%d solver_s=%.1f wall_s=%.1f' % (
              prop, tier, len(obligations), len(discharged), len(inconclusive), len(violations),
              len(harness_errors), paths, queries, solver_s, time.time() - t_start))
    if violations:
        sys.exit(EXIT_VIOLATION)
    if harness_errors:
        sys.exit(EXIT_HARNESS)
    sys.exit(EXIT_OK)


def finish(prop, tier, t_start, obligations, discharged, inconclusive, violations, harness_errors,
           samples, functions, paths, queries, solver_s, bounds, mod, extra_notes):
    # VF_EVIDENCE_DIR: used by tools/try_seed.sh only, so that trial runs against a seeded change never overwrite the
    # committed evidence (which must come from the unchanged tree)
    d = os.environ.get('VF_EVIDENCE_DIR') or os.path.join(ROOT, 'evidence')
    os.makedirs(d, exist_ok=True)
    if not samples:
        samples = [{'note': 'no obligation produced a sample on this run'}]
    cov = {
        'explanation': ('bounded symbolic execution of the real engineio modules: CrossHair 0.0.110 executes '
                        'each harness (and the engineio code it drives) on symbolic arguments, z3 decides every '
                        'branch; an obligation is discharged only when CrossHair reports "Confirmed over all '
                        'paths" for the stated pre: bound AND its reachability twin was refuted and replayed. '
                        + getattr(mod, 'EXPLANATION', '')),
        'obligations': len(obligations),
        'discharged': len(discharged),
        'discharged_conditions': discharged,
        'inconclusive': inconclusive,
        'violations': violations,
        'harness_errors': harness_errors,
        'paths': paths,
        'smt_queries': queries,
        'solver_s': round(solver_s, 2),
        'functions_encoded': sorted(functions),
        'bounds': bounds,
        'stubs': getattr(mod, 'STUBS', []),
        'tables': {n: repr(v)[:600] for n, v in vars(mod).items() if n.isupper() and isinstance(v, tuple) and n not in ('STUBS', 'OUTSIDE')},
        'outside_bound': getattr(mod, 'OUTSIDE', []),
        'not_constrained': getattr(mod, 'NOT_CONSTRAINED', []),
        'evaluations': max(paths, 1),
        'distinct_nontrivial': len(discharged) + len(violations),
        'rule': ('evaluations = execution paths explored symbolically (each path stands for every input that '
                 'takes the same branches); distinct_nontrivial = number of distinct obligations whose '
                 'reachability twin reached the oracle and that were decided (confirmed over all paths, or '
                 'refuted by a replayed counterexample)'),
        'samples': samples,
        'checker_cmd': './check %s --tier %s' % (prop, tier),
        'trusted_base': ['CrossHair 0.0.110 symbolic models of str/bytes/int/list/dict and its path-tree '
                         'bookkeeping', 'z3 5.1.0', 'the stubs listed under "stubs"',
                         'CPython 3.12 for the concrete replays'],
        'exhaustive': False,
    }
    cov.update(extra_notes)
    ev = {'property_id': prop, 'tier': tier if tier in ('quick', 'thorough') else 'quick',
          'seed': int(os.environ.get('VERIF_SEED', '0') or 0), 'level': 'other', 'coverage': cov,
          'assumptions': getattr(mod, 'ASSUMPTIONS', []), 'wall_s': round(time.time() - t_start, 2),
          'violations': len(violations)}
    with open(os.path.join(d, prop + '.json'), 'w') as f:
        json.dump(ev, f, indent=1, default=repr)


if __name__ == '__main__':
    main()
