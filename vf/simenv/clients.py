"""Client-side system-under-test adapters: the real engineio.Client / AsyncClient with their network libraries replaced
by kernel-backed stubs that talk either to a scripted peer or to a real server (a Sut) in the same kernel.

Seams used (no edit of /repo): ``http_session=`` (public parameter; the real _send_request runs), module globals
``requests`` / ``websocket`` / ``time`` of engineio.client, module globals ``asyncio`` / ``time`` of engineio.async_client
and base_client, and the class's own factory methods (start_background_task, create_queue, create_event, sleep).
"""
import types

import aiohttp

from engineio import client as eio_client, async_client as eio_aclient, base_client as eio_bclient

from .kernel import Kernel, Clock, NullLogger, KernelDead, CancelledError
from .threaded import make_async, WsPeer
from .aio import make_shim


# ------------------------------------------------------------------------------------------------ peers
class Refuse(Exception):
    """The peer refuses / drops the connection. ``kind`` says how a WebSocket connection attempt fails at the socket level:
    'ws' (the library's own exception), 'timeout' (TimeoutError: a firewalled port), 'oserror' (OSError: no route to host)."""
    def __init__(self, kind='ws'):
        super().__init__(kind)
        self.kind = kind


class Hang(Exception):
    """The peer never answers (the request times out on the client side)."""


class HttpResult:
    def __init__(self, status, body=b''):
        self.status, self.body = status, body


class WsLink:
    """One WebSocket connection as seen from the client stub."""
    def __init__(self):
        self.to_client = []      # frames (str | bytes) or the markers CLOSE_FRAME / EOF
        self.to_peer = []
        self.closed_by_client = False
        self.closed_by_peer = False
        self.on_send = None      # callback(frame) of the peer


CLOSE_FRAME = object()          # the peer sent a WebSocket close frame
EOF = object()                  # the connection dropped without a close frame


class ScriptedPeer:
    """A server played by the harness. ``http`` is a callable(method, url, body) -> HttpResult | raises Refuse/Hang;
    ``ws`` is a callable(url) -> WsLink | raises Refuse."""
    def __init__(self, http, ws=None):
        self.http_fn, self.ws_fn = http, ws
        self.requests = []       # (method, url, body) log
        self.links = []

    def http(self, k, method, url, headers, body, timeout, blocker):
        self.requests.append((method, url, body, dict(headers or {})))
        deadline = None if timeout is None else k.now + timeout
        try:
            r = self.http_fn(method, url, body)
        except Hang:
            blocker(lambda: False, deadline)
            raise
        if callable(r):
            # deferred answer (e.g. a long poll): r() yields None until the peer has something to say
            box = []

            def ready():
                if not box:
                    v = r()
                    if v is not None:
                        box.append(v)
                return bool(box)
            if not blocker(ready, deadline):
                raise Hang()
            return box[0]
        return r

    def ws(self, k, url, headers):
        if self.ws_fn is None:
            raise Refuse()
        link = self.ws_fn(url)
        self.links.append((url, link, dict(headers or {})))
        return link


class ServerPeer:
    """A real server (ThreadedSut / AsyncSut living in the same kernel) reached through its gateway."""
    def __init__(self, sut):
        self.sut = sut
        self.requests = []
        self.links = []
        self.hold_posts = False      # slow network: a POST does not reach the server until the harness clears this flag

    @staticmethod
    def _split(url):
        rest = url.split('://', 1)[1]
        path = rest[rest.index('/'):] if '/' in rest else '/'
        q = path.split('?', 1)[1] if '?' in path else ''
        return path.split('?', 1)[0], q

    def http(self, k, method, url, headers, body, timeout, blocker):
        self.requests.append((method, url, body, dict(headers or {})))
        path, q = self._split(url)
        if isinstance(body, str):
            body = body.encode('utf-8')
        if method == 'POST' and self.hold_posts:
            blocker(lambda: not self.hold_posts, None)
        r = self.sut.request(method, q, {kk: vv for kk, vv in (headers or {}).items() if kk.lower() != 'content-type'}, body or b'')
        deadline = None if timeout is None else k.now + timeout
        if not blocker(lambda: r.done, deadline):
            raise Hang()
        if r.exc is not None:
            raise Refuse()
        return HttpResult(self.sut.status(r), self.sut.body(r))

    def ws(self, k, url, headers):
        path, q = self._split(url)
        peer = WsPeer()
        h = {'Upgrade': 'websocket', 'Connection': 'Upgrade'}
        r = self.sut.request('GET', q, h, ws=peer)
        link = _ServerLink(k, peer, r)
        self.links.append((url, link, dict(headers or {})))
        return link


class _ServerLink(WsLink):
    """WsLink view of a WsPeer attached to a real server."""
    def __init__(self, k, peer, req):
        super().__init__()
        self.k, self.peer, self.req = k, peer, req
        self.taken = 0

    def pending(self):
        return len(self.peer.frames) > self.taken

    def take(self):
        f = self.peer.frames[self.taken]
        self.taken += 1
        return f

    def server_gone(self):
        return self.peer.closed_by_server or (self.req.done and not self.peer.accepted)


# ------------------------------------------------------------------------------------------------ threaded client
class _ReqExc(Exception):
    pass


class _Response:
    def __init__(self, res):
        self.status_code = res.status
        self.content = res.body

    def json(self):
        import json
        try:
            return json.loads(self.content.decode('utf-8'))
        except ValueError as e:
            from engineio.json import JSONDecodeError
            raise JSONDecodeError(str(e), '', 0)


def _requests_stub():
    exc = types.SimpleNamespace(RequestException=_ReqExc, ConnectionError=_ReqExc, Timeout=_ReqExc)
    return types.SimpleNamespace(exceptions=exc, Session=lambda: None)


class WebSocketException(Exception):
    pass


class WebSocketTimeoutException(WebSocketException):
    pass


class WebSocketConnectionClosedException(WebSocketException):
    pass


class ThreadedClientSut:
    """engineio.Client with kernel-backed threads/queues and stubbed requests / websocket-client."""
    flavour = 'threaded'

    def __init__(self, k, peer, **kw):
        self.k, self.peer = k, peer
        self.logger = NullLogger()
        sut = self
        drv = make_async(k, None)

        class Session:
            cookies = ()
            auth = None
            cert = None
            proxies = None
            verify = True

            def request(self, method, url, headers=None, data=None, timeout=None):
                try:
                    res = peer.http(k, method, url, headers, data, timeout, lambda c, dl: k.block(c, dl, 'http'))
                except (Refuse, Hang) as e:
                    raise _ReqExc(type(e).__name__)
                return _Response(res)

        class Conn:
            def __init__(self, link):
                self.link = link
                self.connected = True
                self.timeout = None

            def settimeout(self, t):
                self.timeout = t

            def _send(self, frame):
                if k.dead:
                    raise KernelDead()
                l = self.link
                if l.closed_by_client or l.closed_by_peer or (isinstance(l, _ServerLink) and l.server_gone()):
                    raise WebSocketConnectionClosedException('closed')
                if isinstance(l, _ServerLink):
                    l.peer.send(frame)
                else:
                    l.to_peer.append(frame)
                    if l.on_send:
                        l.on_send(frame)

            def send(self, data):
                self._send(data)

            def send_binary(self, data):
                self._send(bytes(data))

            def recv(self):
                l = self.link
                dl = None if self.timeout is None else k.now + self.timeout
                if isinstance(l, _ServerLink):
                    ok = k.block(lambda: l.pending() or l.server_gone() or l.closed_by_client, dl, 'ws.recv')
                    if not ok:
                        raise WebSocketTimeoutException('timed out')
                    if l.pending():
                        return l.take()
                    self.connected = False
                    raise WebSocketConnectionClosedException('closed')
                ok = k.block(lambda: len(l.to_client) > 0 or l.closed_by_client, dl, 'ws.recv')
                if not ok:
                    raise WebSocketTimeoutException('timed out')
                if l.closed_by_client and not l.to_client:
                    self.connected = False
                    raise WebSocketConnectionClosedException('closed')
                f = l.to_client.pop(0)
                if f is CLOSE_FRAME or f is EOF:
                    l.closed_by_peer = True
                    self.connected = False
                    raise WebSocketConnectionClosedException('closed')
                return f

            def close(self):
                self.link.closed_by_client = True
                self.connected = False
                if isinstance(self.link, _ServerLink):
                    self.link.peer.close()

        def create_connection(url, **opts):
            try:
                link = peer.ws(k, url, opts.get('header'))
            except Refuse as e:
                if e.kind == 'timeout':
                    raise TimeoutError('timed out')
                if e.kind == 'oserror':
                    raise OSError(113, 'No route to host')
                raise WebSocketException('refused')
            if isinstance(link, _ServerLink):
                k.block(lambda: link.peer.accepted or link.req.done, None, 'ws.connect')
                if not link.peer.accepted:
                    raise WebSocketException('handshake rejected')
            c = Conn(link)
            c.timeout = opts.get('timeout')
            sut.conns.append(c)
            return c
        self.conns = []
        self.ws_stub = types.SimpleNamespace(create_connection=create_connection, WebSocketException=WebSocketException,
                                             WebSocketTimeoutException=WebSocketTimeoutException,
                                             WebSocketConnectionClosedException=WebSocketConnectionClosedException)

        class SimClient(eio_client.Client):
            def start_background_task(self, target, *args, **kwargs):
                return k.spawn_greenlet(target, *args, name='client ' + getattr(target, '__name__', 'task'), **kwargs)

            def create_queue(self, *args, **kwargs):
                q = drv['queue']()
                q.Empty = drv['queue_empty']
                return q

            def create_event(self, *args, **kwargs):
                return drv['event']()

            def sleep(self, seconds=0):
                return drv['sleep'](seconds)
        self._saved = (eio_client.requests, eio_client.websocket, eio_client.time, eio_bclient.time)
        eio_client.requests = _requests_stub()
        eio_client.websocket = self.ws_stub
        eio_client.time = Clock(k)
        eio_bclient.time = Clock(k)
        kw.setdefault('handle_sigint', False)
        kw.setdefault('timestamp_requests', False)
        self.c = SimClient(logger=self.logger, http_session=Session(), **kw)
        self.events = []
        self.raise_in = {}
        self.in_handler = {}        # event -> callable executed inside the handler
        c = self.c

        def on_connect():
            self.events.append(('connect', None))
            if 'connect' in self.in_handler:
                self.in_handler['connect']()

        def on_message(data):
            self.events.append(('message', data))
            if 'message' in self.in_handler:
                self.in_handler['message']()
            if 'message' in self.raise_in:
                raise self.raise_in['message']

        def on_disconnect(reason):
            self.events.append(('disconnect', reason))
            if 'disconnect' in self.in_handler:
                self.in_handler['disconnect']()
        c.on('connect', on_connect)
        c.on('message', on_message)
        c.on('disconnect', on_disconnect)

    def close(self):
        (eio_client.requests, eio_client.websocket, eio_client.time, eio_bclient.time) = self._saved
        try:
            eio_bclient.connected_clients.remove(self.c)
        except ValueError:
            pass

    def call(self, name, *args, **kw):
        """Run a client API call as a task; returns a handle with done/ret/exc."""
        h = types.SimpleNamespace(ret=None, exc=None, task=None)

        def task():
            try:
                h.ret = getattr(self.c, name)(*args, **kw)
            except KernelDead:
                raise
            except Exception as e:  # noqa
                h.exc = e
        h.task = self.k.spawn_greenlet(task, name='client api ' + name)
        return h

    def state(self):
        return self.c.state

    def client_tasks_alive(self):
        return [t for t in self.k.blocked() if t.name.startswith('client ')]


# ------------------------------------------------------------------------------------------------ asyncio client
class _AResponse:
    def __init__(self, res):
        self.status = res.status
        self._body = res.body

    async def read(self):
        return self._body

    async def json(self):
        import json
        try:
            return json.loads(self._body.decode('utf-8'))
        except ValueError:
            raise aiohttp.ContentTypeError(None, ())


class _Msg:
    def __init__(self, type_, data):
        self.type, self.data = type_, data


class AsyncClientSut:
    """engineio.AsyncClient on the kernel's asyncio shim with a fake aiohttp session (real aiohttp exception classes)."""
    flavour = 'asyncio'

    def __init__(self, k, peer, **kw):
        self.k, self.peer = k, peer
        self.logger = NullLogger()
        self.shim = make_shim(k)
        sut = self

        async def ablocker(c, dl):
            return await k.ablock(c, dl, 'http')

        class Conn:
            def __init__(self, link):
                self.link = link
                self.closed = False

            async def _send(self, frame):
                if k.dead:
                    raise KernelDead()
                l = self.link
                if l.closed_by_client or l.closed_by_peer or (isinstance(l, _ServerLink) and l.server_gone()):
                    raise aiohttp.client_exceptions.ServerDisconnectedError()
                if isinstance(l, _ServerLink):
                    l.peer.send(frame)
                else:
                    l.to_peer.append(frame)
                    if l.on_send:
                        l.on_send(frame)

            async def send_str(self, data):
                await self._send(data)

            async def send_bytes(self, data):
                await self._send(bytes(data))

            async def receive(self):
                l = self.link
                if isinstance(l, _ServerLink):
                    await k.ablock(lambda: l.pending() or l.server_gone() or l.closed_by_client, None, 'ws.receive')
                    if l.pending():
                        f = l.take()
                        return _Msg(aiohttp.WSMsgType.BINARY if isinstance(f, bytes) else aiohttp.WSMsgType.TEXT, f)
                    if l.closed_by_client:
                        return _Msg(aiohttp.WSMsgType.CLOSED, None)
                    return _Msg(aiohttp.WSMsgType.CLOSE, 1000)
                await k.ablock(lambda: len(l.to_client) > 0 or l.closed_by_client or l.closed_by_peer, None, 'ws.receive')
                if l.to_client:
                    f = l.to_client.pop(0)
                    if f is CLOSE_FRAME:
                        l.closed_by_peer = True
                        return _Msg(aiohttp.WSMsgType.CLOSE, 1000)
                    if f is EOF:
                        l.closed_by_peer = True
                        return _Msg(aiohttp.WSMsgType.CLOSED, None)
                    return _Msg(aiohttp.WSMsgType.BINARY if isinstance(f, bytes) else aiohttp.WSMsgType.TEXT, f)
                return _Msg(aiohttp.WSMsgType.CLOSED, None)

            async def close(self):
                self.link.closed_by_client = True
                self.closed = True
                if isinstance(self.link, _ServerLink):
                    self.link.peer.close()

        class Session:
            closed = False
            cookie_jar = types.SimpleNamespace(update_cookies=lambda c: None)

            async def _req(self, method, url, headers=None, data=None, timeout=None, ssl=None):
                t = getattr(timeout, 'total', timeout)

                async def wait(c, dl):
                    return await k.ablock(c, dl, 'http')
                # the synchronous peer protocol needs a blocker; emulate with a small trampoline
                res = await _async_http(k, peer, method, url, headers, data, t)
                return _AResponse(res)

            async def get(self, url, **kw):
                return await self._req('GET', url, **kw)

            async def post(self, url, **kw):
                return await self._req('POST', url, **kw)

            async def ws_connect(self, url, **opts):
                try:
                    link = peer.ws(k, url, opts.get('headers'))
                except Refuse:
                    raise aiohttp.client_exceptions.ClientConnectionError('refused')
                if isinstance(link, _ServerLink):
                    await k.ablock(lambda: link.peer.accepted or link.req.done, None, 'ws.connect')
                    if not link.peer.accepted:
                        raise aiohttp.client_exceptions.ClientConnectionError('handshake rejected')
                c = Conn(link)
                sut.conns.append(c)
                return c

            async def close(self):
                pass
        self.conns = []
        self._saved = (eio_aclient.asyncio, eio_bclient.time, eio_aclient.async_signal_handler_set)
        eio_aclient.asyncio = self.shim
        eio_bclient.time = Clock(k)
        eio_aclient.async_signal_handler_set = True
        kw.setdefault('handle_sigint', False)
        kw.setdefault('timestamp_requests', False)
        self.c = eio_aclient.AsyncClient(logger=self.logger, http_session=Session(), **kw)
        self.events = []
        self.raise_in = {}
        self.in_handler = {}

        def on_connect():
            self.events.append(('connect', None))
            if 'connect' in self.in_handler:
                return self.in_handler['connect']()

        def on_message(data):
            self.events.append(('message', data))
            if 'message' in self.raise_in:
                raise self.raise_in['message']

        def on_disconnect(reason):
            self.events.append(('disconnect', reason))
        self.c.on('connect', on_connect)
        self.c.on('message', on_message)
        self.c.on('disconnect', on_disconnect)

    def close(self):
        (eio_aclient.asyncio, eio_bclient.time, eio_aclient.async_signal_handler_set) = self._saved
        try:
            eio_bclient.connected_clients.remove(self.c)
        except ValueError:
            pass

    def call(self, name, *args, **kw):
        h = types.SimpleNamespace(ret=None, exc=None, task=None)

        async def task():
            try:
                h.ret = await getattr(self.c, name)(*args, **kw)
            except KernelDead:
                raise
            except CancelledError:
                raise
            except Exception as e:  # noqa
                h.exc = e
        h.task = self.k.spawn_coro(task(), name='client api ' + name)
        return h

    def state(self):
        return self.c.state

    def client_tasks_alive(self):
        return [t for t in self.k.blocked() if 'AsyncClient' in t.name]


async def _async_http(k, peer, method, url, headers, data, timeout):
    """Coroutine-side version of peer.http()."""
    if isinstance(peer, ServerPeer):
        peer.requests.append((method, url, data, dict(headers or {})))
        path, q = peer._split(url)
        body = data.encode('utf-8') if isinstance(data, str) else (data or b'')
        if method == 'POST' and peer.hold_posts:
            await k.ablock(lambda: not peer.hold_posts, None, 'http POST held (slow network)')
        r = peer.sut.request(method, q, {kk: vv for kk, vv in (headers or {}).items() if kk.lower() != 'content-type'}, body)
        dl = None if timeout is None else k.now + timeout
        ok = await k.ablock(lambda: r.done, dl, 'http')
        if not ok:
            raise aiohttp.ClientError('timeout')
        if r.exc is not None:
            raise aiohttp.ClientError('refused')
        return HttpResult(peer.sut.status(r), peer.sut.body(r))
    peer.requests.append((method, url, data, dict(headers or {})))
    try:
        r = peer.http_fn(method, url, data)
    except Refuse:
        raise aiohttp.ClientError('refused')
    except Hang:
        await k.ablock(lambda: False, None if timeout is None else k.now + timeout, 'http hang')
        raise aiohttp.ClientError('timeout')
    if callable(r):
        dl = None if timeout is None else k.now + timeout
        box = []

        def ready():
            if not box:
                v = r()
                if v is not None:
                    box.append(v)
            return bool(box)
        ok = await k.ablock(ready, dl, 'http deferred')
        if not ok:
            raise aiohttp.ClientError('timeout')
        return box[0]
    return r
