"""Cooperative simulation kernel with a virtual clock.

Two kinds of task run in ONE OS thread:
  * greenlet tasks   - the unmodified blocking code of the threaded Server / Socket / Client
  * coroutine tasks  - AsyncServer / AsyncSocket / AsyncClient / the ASGI driver, stepped with send()

The only way to wait is ``block(cond, deadline)`` (greenlet side) / ``await ablock(cond, deadline)``
(coroutine side).  A task runs until it blocks; the clock advances to the earliest deadline only when
nothing is runnable.  Ready tasks are served round-robin in creation order (FIFO-like, which is what
asyncio / eventlet / gevent do up to tie-breaking); the first ``len(choices)`` scheduling decisions among
more than one ready task are taken from ``choices`` (symbolic ints supplied by a harness).
"""
import greenlet


class KernelDead(BaseException):
    """Raised by every primitive once the kernel has been torn down (harness finished)."""


class Livelock(BaseException):
    """A task keeps calling blocking primitives that never block (it would spin for ever at 100% CPU)."""


class CancelledError(BaseException):
    pass


try:  # the real classes, so that ``except asyncio.CancelledError`` in the code under test matches by identity
    import asyncio as _real_asyncio
    CancelledError = _real_asyncio.CancelledError          # noqa: F811
    AsyncTimeoutError = _real_asyncio.TimeoutError
    AsyncQueueEmpty = _real_asyncio.QueueEmpty
except Exception:  # pragma: no cover
    class AsyncTimeoutError(Exception):
        pass

    class AsyncQueueEmpty(Exception):
        pass


def _is_control_flow(exc):
    """CrossHair's path-steering exceptions must never be swallowed or stored."""
    for klass in type(exc).__mro__:
        if klass.__name__ == 'ControlFlowException':
            return True
    return False


class _Yield:
    def __await__(self):
        yield self


class _ScopeTimeout(CancelledError):
    def __init__(self, scope):
        super().__init__()
        self.scope = scope


class Task:
    def __init__(self, kernel, kind, name):
        self.k = kernel
        self.kind = kind            # 'g' | 'c'
        self.name = name
        self.cond = None
        self.deadline = None
        self.what = None            # label of the primitive the task is blocked in
        self.started = False
        self.done_ = False
        self.result_ = None
        self.exc = None             # exception that escaped the task (Exception or CancelledError)
        self.cancel_requested = False
        self.scopes = []            # [(id, deadline)] wait_for scopes of a coroutine task
        self.callbacks = []
        self.g = None
        self.coro = None

    # -- asyncio.Task-like surface (used by the shim and by engineio code)
    def done(self):
        return self.done_

    def cancelled(self):
        return self.done_ and isinstance(self.exc, CancelledError)

    def result(self):
        if self.exc is not None:
            raise self.exc
        return self.result_

    def exception(self):
        if isinstance(self.exc, CancelledError):
            raise self.exc
        return self.exc

    def add_done_callback(self, cb):
        if self.done_:
            cb(self)
        else:
            self.callbacks.append(cb)

    def cancel(self, msg=None):
        if self.done_:
            return False
        self.cancel_requested = True
        return True

    def __await__(self):
        yield from self.k.ablock(lambda: self.done_, None, 'await task ' + self.name).__await__()
        if self.exc is not None:
            raise self.exc
        return self.result_

    # -- threading.Thread-like surface
    def join(self, timeout=None):
        dl = None if timeout is None else self.k.now + timeout
        self.k.block(lambda: self.done_, dl, 'join task ' + self.name)

    def is_alive(self):
        return not self.done_

    def frames(self):
        """engineio function names on the suspended stack (innermost last)."""
        out = []
        if self.kind == 'g':
            f = self.g.gr_frame if self.g is not None and not self.g.dead else None
            chain = []
            while f is not None:
                chain.append(f)
                f = f.f_back
            for f in reversed(chain):
                if f.f_globals.get('__name__', '').startswith('engineio'):
                    out.append(f.f_globals['__name__'] + '.' + f.f_code.co_qualname)
        else:
            c = self.coro
            seen = 0
            while c is not None and seen < 50:
                seen += 1
                f = getattr(c, 'cr_frame', None) or getattr(c, 'gi_frame', None)
                if f is not None and f.f_globals.get('__name__', '').startswith('engineio'):
                    out.append(f.f_globals['__name__'] + '.' + f.f_code.co_qualname)
                nxt = getattr(c, 'cr_await', None)
                if nxt is None:
                    nxt = getattr(c, 'gi_yieldfrom', None)
                c = nxt
        return out


class Kernel:
    def __init__(self, choices=(), start=1000):
        self.main = greenlet.getcurrent()
        self.now = start
        self.tasks = []
        self.current = None
        self.choices = list(choices)
        self.decisions = 0
        self.dead = False
        self._rr = 0
        self._scope = 0
        self.steps = 0
        self.max_steps = 20000
        self._spin = 0
        self.max_spin = 5000

    # ------------------------------------------------------------------ spawning
    def spawn_greenlet(self, fn, *a, name=None, **kw):
        t = Task(self, 'g', name or getattr(fn, '__qualname__', 'task'))

        def body():
            try:
                t.result_ = fn(*a, **kw)
            except greenlet.GreenletExit:
                raise
            except KernelDead:
                pass
            except Exception as e:  # noqa  (stored; CrossHair control flow is BaseException and propagates)
                t.exc = e
        t.g = greenlet.greenlet(body, parent=self.main)
        self.tasks.append(t)
        return t

    def spawn_coro(self, coro, name=None):
        if isinstance(coro, Task):
            return coro
        t = Task(self, 'c', name or getattr(coro, '__qualname__', 'coro'))
        t.coro = coro
        self.tasks.append(t)
        return t

    # ------------------------------------------------------------------ blocking
    def block(self, cond, deadline=None, what=''):
        """Greenlet side. Returns True when cond() holds, False when the deadline passed."""
        if self.dead:
            raise KernelDead()
        t = self.current
        if t is None or t.kind != 'g':
            raise RuntimeError('blocking call (%s) outside a greenlet task' % what)
        while True:
            if cond():
                self._spinning(t, what)
                return True
            if deadline is not None and self.now >= deadline:
                self._spinning(t, what)
                return False
            t.cond, t.deadline, t.what = cond, deadline, what
            self._spin = 0
            self.main.switch()
            if self.dead:
                raise KernelDead()

    def _spinning(self, t, what):
        self._spin += 1
        if self._spin > self.max_spin:
            self._spin = 0
            raise Livelock('task %r made %d calls to blocking primitives (last: %s) without ever blocking' % (
                t.name, self.max_spin, what))

    async def ablock(self, cond, deadline=None, what=''):
        """Coroutine side. Honours the wait_for scopes of the current task (cancellation of the inner await)."""
        if self.dead:
            raise KernelDead()
        t = self.current
        if t is None or t.kind != 'c':
            raise RuntimeError('await (%s) outside a coroutine task' % what)
        while True:
            if t.cancel_requested:
                t.cancel_requested = False
                raise CancelledError()
            for sid, dl in t.scopes:
                if self.now >= dl:
                    raise _ScopeTimeout(sid)
            if cond():
                self._spinning(t, what)
                return True
            if deadline is not None and self.now >= deadline:
                self._spinning(t, what)
                return False
            self._spin = 0
            dls = [dl for _, dl in t.scopes]
            if deadline is not None:
                dls.append(deadline)
            eff = None
            for d in dls:
                if eff is None or d < eff:
                    eff = d
            t.cond, t.deadline, t.what = cond, eff, what
            await _Yield()
            if self.dead:
                raise KernelDead()

    # ------------------------------------------------------------------ scheduler
    def _runnable(self, t):
        if t.done_:
            return False
        if not t.started or t.cond is None or t.cancel_requested:
            return True
        if t.cond():
            return True
        return t.deadline is not None and self.now >= t.deadline

    def _step(self, t):
        self._spin = 0
        t.cond = None
        t.what = None
        self.current = t
        self.steps += 1
        try:
            if t.kind == 'g':
                t.started = True
                t.g.switch()
                if t.g.dead:
                    t.done_ = True
            else:
                try:
                    if not t.started:
                        t.started = True
                        if t.cancel_requested:
                            t.cancel_requested = False
                            t.coro.close()
                            raise CancelledError()
                    t.coro.send(None)
                except StopIteration as e:
                    t.done_ = True
                    t.result_ = e.value
                except KernelDead:
                    t.done_ = True
                except CancelledError as e:
                    t.done_ = True
                    t.exc = e
                except Exception as e:  # noqa
                    t.done_ = True
                    t.exc = e
        finally:
            self.current = None
        if t.done_:
            cbs, t.callbacks = t.callbacks, []
            for cb in cbs:
                cb(t)

    def run(self, until=None):
        """Serve runnable tasks; when none is runnable jump the clock to the earliest deadline <= until."""
        if self.dead:
            raise KernelDead()
        while True:
            n = len(self.tasks)
            ready = []
            for off in range(n):
                t = self.tasks[(self._rr + off) % n]
                if self._runnable(t):
                    ready.append(t)
                    if not self.choices:
                        break
            if ready:
                t = ready[0]
                if len(ready) > 1 and self.choices:
                    # a scheduling decision supplied by the harness. Threads (greenlet tasks) may be resumed in any order;
                    # coroutine tasks of ONE event loop are resumed in the order in which they became ready (FIFO), so
                    # among the ready coroutine tasks only the first one is a candidate
                    cands, seen_coro = [], False
                    for r_ in ready:
                        if r_.kind == 'g':
                            cands.append(r_)
                        elif not seen_coro:
                            cands.append(r_)
                            seen_coro = True
                    if len(cands) > 1:
                        t = cands[self.choices.pop(0) % len(cands)]
                        self.decisions += 1
                    else:
                        t = cands[0]
                self._rr = (self.tasks.index(t) + 1)
                if self.steps > self.max_steps:
                    raise RuntimeError('kernel step budget exceeded (livelock?)')
                self._step(t)
                continue
            nxt = None
            for t in self.tasks:
                if not t.done_ and t.deadline is not None:
                    if nxt is None or t.deadline < nxt:
                        nxt = t.deadline
            if nxt is None or (until is not None and nxt > until):
                if until is not None and self.now < until:
                    self.now = until
                return
            if nxt > self.now:
                self.now = nxt

    def settle(self):
        """Run everything runnable at the current instant."""
        self.run(until=self.now)

    def advance(self, dt):
        self.run(until=self.now + dt)

    # ------------------------------------------------------------------ inspection / teardown
    def blocked(self):
        return [t for t in self.tasks if not t.done_]

    def teardown(self):
        """Make sure no code under test keeps running after the oracle was evaluated."""
        if self.dead:
            return
        self.dead = True
        for t in self.tasks:
            if t.done_:
                continue
            for _ in range(4):
                try:
                    if t.kind == 'g':
                        if not t.started or t.g.dead:
                            break
                        self.current = t
                        t.g.throw(KernelDead())
                        if t.g.dead:
                            break
                    else:
                        if not t.started:
                            t.coro.close()
                            break
                        self.current = t
                        t.coro.throw(KernelDead())
                except (KernelDead, StopIteration, greenlet.GreenletExit, RuntimeError, CancelledError):
                    break
                except Exception:  # noqa
                    break
                finally:
                    self.current = None
            else:
                _LEAKED.append(t)     # refuses to die: keep it referenced so the GC never resumes it
            t.done_ = True


_LEAKED = []


class Clock:
    """Stand-in for the ``time`` module of engineio.socket / async_socket / client."""
    def __init__(self, k):
        self.k = k

    def time(self):
        return self.k.now

    def sleep(self, s=0):
        self.k.block(lambda: False, self.k.now + s, 'time.sleep')


class NullLogger:
    """logger= stub. exception() re-raises CrossHair control flow / KernelDead swallowed by a bare ``except:``."""
    def __init__(self):
        self.errors = []

    def info(self, *a, **k):
        pass
    debug = info

    def warning(self, msg='', *a, **k):
        pass

    def error(self, msg='', *a, **k):
        pass

    def exception(self, msg='', *a, **k):
        import sys
        e = sys.exc_info()[1]
        if e is not None and (isinstance(e, KernelDead) or _is_control_flow(e)):
            raise e
        self.errors.append((msg, type(e).__name__ if e is not None else None))

    level = 0

    def setLevel(self, *_):
        pass

    def addHandler(self, *_):
        pass
