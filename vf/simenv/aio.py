"""asyncio shim on top of the kernel + the ASGI-side system-under-test adapter.

Semantics transcribed from CPython 3.12: wait([]) raises ValueError; wait_for delivers CancelledError to the inner
awaitable and converts it to TimeoutError; wait_for on a Task cancels that task on timeout; Queue.task_done raises
ValueError below zero; the exception classes are the REAL asyncio ones (identity matters for ``except`` clauses).
"""
import inspect
import types

from engineio import async_server as eio_aserver, async_socket as eio_asocket, base_server
from engineio.async_drivers import asgi as eio_asgi

from .kernel import (Kernel, Clock, NullLogger, KernelDead, Task, CancelledError, AsyncTimeoutError,
                     AsyncQueueEmpty, _ScopeTimeout)
from .threaded import WsPeer, Req, _Secrets


def make_shim(k):
    shim = types.SimpleNamespace()
    shim.CancelledError = CancelledError
    shim.TimeoutError = AsyncTimeoutError
    shim.QueueEmpty = AsyncQueueEmpty
    shim.iscoroutinefunction = inspect.iscoroutinefunction
    shim.iscoroutine = inspect.iscoroutine
    shim.Task = Task

    async def sleep(delay=0, result=None):
        await k.ablock(lambda: False, k.now + delay, 'asyncio.sleep')
        return result
    shim.sleep = sleep

    def ensure_future(c):
        if isinstance(c, Task):
            return c
        if not inspect.iscoroutine(c):
            raise TypeError('An asyncio.Future, a coroutine or an awaitable is required')
        return k.spawn_coro(c)
    shim.ensure_future = ensure_future

    def create_task(c, name=None):
        if not inspect.iscoroutine(c):
            raise TypeError('a coroutine was expected, got %r' % (c,))
        return k.spawn_coro(c)
    shim.create_task = create_task

    async def wait_for(aw, timeout):
        if timeout is None:
            return await aw
        if isinstance(aw, Task):
            ok = await k.ablock(lambda: aw.done_, k.now + timeout, 'wait_for(task)')
            if not ok:
                aw.cancel()
                await k.ablock(lambda: aw.done_, None, 'wait_for(task) cancelling')
                if aw.exc is not None and not isinstance(aw.exc, CancelledError):
                    raise aw.exc
                if aw.exc is None:
                    return aw.result_
                raise AsyncTimeoutError()
            if aw.exc is not None:
                raise aw.exc
            return aw.result_
        t = k.current
        k._scope += 1
        sid = k._scope
        t.scopes.append((sid, k.now + timeout))
        try:
            return await aw
        except _ScopeTimeout as e:
            if e.scope == sid:
                raise AsyncTimeoutError() from None
            raise
        finally:
            t.scopes.pop()
    shim.wait_for = wait_for

    async def wait(fs, timeout=None, return_when='ALL_COMPLETED'):
        fs = list(fs)
        if not fs:
            raise ValueError('Set of Tasks/Futures is empty.')
        if any(inspect.iscoroutine(f) for f in fs):
            raise TypeError('Passing coroutines is forbidden, use tasks explicitly.')
        dl = None if timeout is None else k.now + timeout
        await k.ablock(lambda: all(f.done_ for f in fs), dl, 'asyncio.wait')
        return {f for f in fs if f.done_}, {f for f in fs if not f.done_}
    shim.wait = wait

    async def gather(*aws, return_exceptions=False):
        ts = [ensure_future(a) for a in aws]
        await k.ablock(lambda: all(t.done_ for t in ts), None, 'asyncio.gather')
        out = []
        for t in ts:
            if t.exc is not None and not return_exceptions:
                raise t.exc
            out.append(t.exc if t.exc is not None else t.result_)
        return out
    shim.gather = gather

    class Queue:
        def __init__(self, maxsize=0):
            self.items = []
            self.unfinished = 0

        async def put(self, x):
            self.put_nowait(x)

        def put_nowait(self, x):
            self.items.append(x)
            self.unfinished += 1

        async def get(self):
            await k.ablock(lambda: len(self.items) > 0, None, 'queue.get')
            return self.items.pop(0)

        def get_nowait(self):
            if not self.items:
                raise AsyncQueueEmpty()
            return self.items.pop(0)

        def task_done(self):
            if self.unfinished <= 0:
                raise ValueError('task_done() called too many times')
            self.unfinished -= 1

        async def join(self):
            await k.ablock(lambda: self.unfinished == 0, None, 'queue.join')

        def empty(self):
            return not self.items

        def qsize(self):
            return len(self.items)
    shim.Queue = Queue

    class Event:
        def __init__(self):
            self.flag = False

        def is_set(self):
            if k.dead:
                return True
            return self.flag

        def set(self):
            self.flag = True

        def clear(self):
            self.flag = False

        async def wait(self):
            await k.ablock(lambda: self.flag, None, 'event.wait')
            return True
    shim.Event = Event
    loop = types.SimpleNamespace(is_closed=lambda: False, time=lambda: k.now)
    shim.get_running_loop = lambda: loop
    shim.get_event_loop = lambda: loop
    return shim


class AsyncSut:
    """engineio.AsyncServer(async_mode='asgi') driven through the REAL async_drivers/asgi.py
    (translate_request, make_response, WebSocket) with kernel-backed receive/send callables."""
    flavour = 'asyncio'

    def __init__(self, k=None, choices=(), **cfg):
        self.k = k or Kernel(choices)
        self.logger = NullLogger()
        cfg.setdefault('monitor_clients', False)
        self.shim = make_shim(self.k)
        self._patch()
        self.srv = eio_aserver.AsyncServer(async_mode='asgi', logger=self.logger, **cfg)
        self.srv._async = dict(self.srv._async)      # private copy: the driver table is a module-level dict
        self.events = []
        self.reads = []
        self.connect_result = None
        self.raise_in = {}
        self.on_message = None
        self.async_handlers_are_coroutines = False
        srv = self.srv

        def on_connect(sid, environ):
            self.events.append(('connect', sid, None))
            r = self.connect_result
            if isinstance(r, BaseException):
                raise r
            return r

        def on_message(sid, data):
            self.events.append(('message', sid, data))
            if self.on_message:
                self.on_message(sid, data)
            if 'message' in self.raise_in:
                raise self.raise_in['message']

        def on_disconnect(sid, reason):
            self.events.append(('disconnect', sid, reason))
            if 'disconnect' in self.raise_in:
                raise self.raise_in['disconnect']
        srv.on('connect', on_connect)
        srv.on('message', on_message)
        srv.on('disconnect', on_disconnect)

    def _patch(self):
        self._saved = (eio_aserver.asyncio, eio_asocket.asyncio, eio_asgi.asyncio, eio_asocket.time,
                       base_server.secrets)
        eio_aserver.asyncio = self.shim
        eio_asocket.asyncio = self.shim
        eio_asgi.asyncio = self.shim
        eio_asocket.time = Clock(self.k)
        base_server.secrets = _Secrets()

    def close(self):
        self.k.teardown()
        (eio_aserver.asyncio, eio_asocket.asyncio, eio_asgi.asyncio, eio_asocket.time,
         base_server.secrets) = self._saved

    # ------------------------------------------------------------------ requests
    def request(self, method, query, headers=None, body=b'', declared_len=None, ws=None, scheme='http',
                client_gone=False):
        k = self.k
        r = Req('http' if ws is None else 'websocket')
        hdrs = []
        for hk, hv in (headers or {}).items():
            hdrs.append((hk.lower().encode('latin-1'), hv.encode('utf-8') if isinstance(hv, str) else hv))
        if declared_len == 'absent':
            pass                    # no Content-Length header at all (chunked transfer encoding)
        elif declared_len is not None:
            hdrs.append((b'content-length', str(declared_len).encode()))
        elif method == 'POST':
            hdrs.append((b'content-length', str(len(body)).encode()))
        scope = {'type': 'http' if ws is None else 'websocket', 'path': '/engine.io/', 'method': method,
                 'query_string': query.encode('utf-8') if isinstance(query, str) else query, 'headers': hdrs,
                 'scheme': scheme}
        if ws is None:
            # ASGI servers deliver a request body in one or several http.request events (more_body=True on all but the
            # last); ``self.body_chunks`` (1 by default) is how many events a non-empty body is cut into
            n = max(1, min(int(getattr(self, 'body_chunks', 1)), len(body) or 1))
            if n == 1:
                inbox = [{'type': 'http.request', 'body': body, 'more_body': False}]
            else:
                step = (len(body) + n - 1) // n
                parts = [body[i:i + step] for i in range(0, len(body), step)]
                inbox = [{'type': 'http.request', 'body': p_, 'more_body': i < len(parts) - 1} for i, p_ in enumerate(parts)]
            if getattr(self, 'body_tail_empty', False) and body:
                # ... and, as servers do for chunked uploads, the end of the body is signalled by a final EMPTY event
                for ev_ in inbox:
                    ev_['more_body'] = True
                inbox.append({'type': 'http.request', 'body': b'', 'more_body': False})
            if client_gone:
                inbox.append({'type': 'http.disconnect'})
            r.inbox = inbox

            async def receive():
                await k.ablock(lambda: len(inbox) > 0, None, 'asgi.receive')
                return inbox.pop(0)
        else:
            r.peer = ws
            state = {'connect_sent': False}

            async def receive():
                if not state['connect_sent']:
                    state['connect_sent'] = True
                    return {'type': 'websocket.connect'}
                await k.ablock(lambda: len(ws.to_server) > 0 or ws.client_closed, None, 'asgi.receive(ws)')
                if ws.to_server:
                    f = ws.to_server.pop(0)
                    if isinstance(f, (bytes, bytearray)):
                        return {'type': 'websocket.receive', 'bytes': bytes(f), 'text': None}
                    return {'type': 'websocket.receive', 'text': f, 'bytes': None}
                return {'type': 'websocket.disconnect', 'code': 1006 if ws.client_failed else 1000}

        async def send(ev):
            if k.dead:
                raise KernelDead()
            r.sr_calls.append(ev)
            if ws is not None:
                ty = ev.get('type')
                if ty == 'websocket.accept':
                    if ws.fail_accept:
                        raise OSError('client went away before the WebSocket was accepted')
                    ws.accepted = True
                elif ty == 'websocket.send':
                    if ws.paused:
                        await k.ablock(lambda: not ws.paused or ws.client_closed, None, 'asgi.send (back-pressure)')
                    elif ws.slow:
                        once = []
                        await k.ablock(lambda: bool(once) or once.append(1) or False, None, 'asgi.send (slow link)')
                    if ws.client_closed or ws.closed_by_server:
                        ws.sent_after_close += 1
                        raise OSError('websocket closed')      # what uvicorn/hypercorn do after disconnect
                    ws.frames.append(ev.get('bytes') if ev.get('bytes') is not None else ev.get('text'))
                elif ty == 'websocket.close':
                    if not ws.accepted:
                        ws.rejected = ev.get('reason', '')
                    ws.closed_by_server = True
        r.scope = scope

        async def task():
            try:
                r.ret = await self.srv.handle_request(scope, receive, send)
            except KernelDead:
                raise
            except CancelledError:
                raise
            except Exception as e:  # noqa
                r.exc = e
        r.task = k.spawn_coro(task(), name='request %s %s' % (method, query))
        return r

    def status(self, r):
        for ev in r.sr_calls:
            if ev.get('type') == 'http.response.start':
                return ev.get('status')
        return None

    def headers(self, r):
        for ev in r.sr_calls:
            if ev.get('type') == 'http.response.start':
                return [(a.decode('utf-8'), b.decode('utf-8')) for a, b in ev.get('headers', [])]
        return []

    def body(self, r):
        return b''.join(ev.get('body', b'') for ev in r.sr_calls if ev.get('type') == 'http.response.body')

    def open(self, transport='polling', headers=None, extra='', ws=None):
        q = 'transport=%s&EIO=4%s' % (transport, extra)
        if transport == 'websocket':
            ws = ws or WsPeer()
            h = {'Upgrade': 'websocket', 'Connection': 'Upgrade'}
            h.update(headers or {})
            return self.request('GET', q, h, ws=ws)
        return self.request('GET', q, headers)

    def get(self, sid, headers=None, extra=''):
        return self.request('GET', 'transport=polling&sid=%s%s' % (sid, extra), headers)

    def post(self, sid, body, declared_len=None, headers=None, extra=''):
        if isinstance(body, str):
            body = body.encode('utf-8')
        return self.request('POST', 'transport=polling&sid=%s%s' % (sid, extra), headers, body, declared_len)

    def ws_upgrade(self, sid, headers=None, peer=None):
        ws = peer or WsPeer()
        h = {'Upgrade': 'websocket', 'Connection': 'Upgrade'}
        h.update(headers or {})
        return self.request('GET', 'transport=websocket&sid=%s' % sid, h, ws=ws)

    # ------------------------------------------------------------------ application API
    def api(self, name, *args):
        r = Req('api')

        async def task():
            try:
                res = getattr(self.srv, name)(*args)
                if inspect.isawaitable(res):
                    res = await res
                r.ret = res
            except KernelDead:
                raise
            except CancelledError:
                raise
            except Exception as e:  # noqa
                r.exc = e
        r.task = self.k.spawn_coro(task(), name='api ' + name)
        return r

    def app_send(self, sid, data):
        return self.api('send', sid, data)

    def app_disconnect(self, sid=None):
        return self.api('disconnect', sid) if sid is not None else self.api('disconnect')

    def transport(self, sid):
        return self.srv.transport(sid)

    def live_sids(self):
        return sorted(self.srv.sockets.keys())

    def run(self, until=None):
        self.k.run(until)

    def settle(self):
        self.k.settle()

    def sids(self):
        out = []
        for kind, sid, _ in self.events:
            if kind == 'connect' and sid not in out:
                out.append(sid)
        return out
