"""A scripted Engine.IO server played by the harness (the peer of the client adapters in C08 / C09)."""
import json

from vf.oracles.wire import split_payload, decode_packet
from .clients import ScriptedPeer, HttpResult, Refuse, Hang, WsLink, CLOSE_FRAME, EOF

PI_MS, PT_MS = 3000, 2000


def wire(t, data=''):
    return str(t) + data


class FakeServer(ScriptedPeer):
    """Behaviour knobs (all plain attributes, set by the harness):
    handshake   'ok' | 'refuse' | 'status400-json' | 'status500' | 'garbage' | 'non-open' | 'empty' | 'open+close' | 'no-sid' | 'hang'
    extras      packets (wire strings) that ride on the handshake response after OPEN
    upgrades    list advertised in OPEN
    poll_mode   'normal' | 'silence' | 'drop' | 'status500' | 'garbage'
    post_mode   'ok' | 'drop' | 'status400' | 'hold' (the POST stays in flight until the harness sets ``hold = False``)
    ws_mode     'ok' | 'refuse' | 'non-open' | 'no-open'
    probe_reply '3probe' | any other frame | None (never answers)
    """
    def __init__(self, k):
        super().__init__(self._http, self._ws)
        self.k = k
        self.handshake = 'ok'
        self.extras = []
        self.upgrades = ['websocket']
        self.poll_mode = 'normal'
        self.post_mode = 'ok'
        self.hold = True
        self.ws_mode = 'ok'
        self.probe_reply = '3probe'
        self.outbox = []           # wire packets waiting for the next poll
        self.received = []         # (transport, type, data) decoded from POST bodies and WebSocket frames
        self.raw_posts = []
        self.ws_frames = []        # every raw frame the client sent on any WebSocket
        self.sid_n = 0
        self.link = None
        self.upgrade_frames = []
        self.polls_open = 0
        self.get_urls = []
        self.heartbeat = True      # a live server PINGs every ping_interval (and is content with any PONG)
        self.pings = 0
        k.spawn_greenlet(self._heartbeat, name='fake server heartbeat')

    def _heartbeat(self):
        k = self.k
        while not k.dead:
            k.block(lambda: False, k.now + PI_MS // 1000, 'heartbeat')
            if self.heartbeat and self.poll_mode not in ('silence',) and self.sid_n > 0:
                self.pings += 1
                self.push('2')

    # ---------------------------------------------------------------- helpers for the harness
    def push(self, *packets):
        """Queue packets for the client on whatever transport it uses."""
        if self.link is not None and not self.link.closed_by_peer and self.link.established:
            self.link.to_client.extend(packets)
        else:
            self.outbox.extend(packets)

    def open_packet(self):
        self.sid_n += 1
        info = {'sid': 'sid-%d' % self.sid_n, 'upgrades': list(self.upgrades), 'pingInterval': PI_MS, 'pingTimeout': PT_MS,
                'maxPayload': 1000000}
        if self.handshake == 'no-sid':
            del info['sid']
        return '0' + json.dumps(info, separators=(',', ':'))

    # ---------------------------------------------------------------- HTTP
    def _http(self, method, url, body):
        if method == 'GET':
            self.get_urls.append(url)
        if method == 'GET' and 'sid=' not in url:
            h = self.handshake
            if h == 'refuse':
                raise Refuse()
            if h == 'hang':
                raise Hang()
            if h == 'status400-json':
                return HttpResult(400, b'"not today"')
            if h == 'status500':
                return HttpResult(500, b'<html>oops</html>')
            if h == 'garbage':
                return HttpResult(200, b'\xff\xfenot a payload')
            if h == 'bad-packet':
                return HttpResult(200, b'x')
            if h == 'non-open':
                return HttpResult(200, b'4hello')
            if h == 'empty':
                return HttpResult(200, b'')
            pk = [self.open_packet()] + list(self.extras)
            if h == 'open+close':
                pk.append('1')
            return HttpResult(200, '\x1e'.join(pk).encode('utf-8'))
        if method == 'GET':
            m = self.poll_mode
            if m == 'drop':
                raise Refuse()
            if m == 'status500':
                return HttpResult(500, b'no')
            if m == 'garbage':
                return HttpResult(200, b'zz')
            if m == 'silence':
                raise Hang()
            self.polls_open += 1

            def ready():
                if self.poll_mode == 'drop-now':
                    return HttpResult(0, b'')
                if self.outbox:
                    out, self.outbox = self.outbox, []
                    self.polls_open -= 1
                    return HttpResult(200, '\x1e'.join(out).encode('utf-8'))
                return None
            return ready
        if method == 'POST':
            text = body if isinstance(body, str) else (body or b'').decode('utf-8')
            self.raw_posts.append(text)
            if self.post_mode == 'drop':
                raise Refuse()
            if self.post_mode == 'status400':
                return HttpResult(400, b'"bad"')
            if self.post_mode == 'hold' and self.hold:
                def held():
                    if self.hold:
                        return None
                    for t, d in split_payload(text):
                        self.received.append(('polling', t, d))
                    return HttpResult(200, b'OK')
                return held
            for t, d in split_payload(text):
                self.received.append(('polling', t, d))
            return HttpResult(200, b'OK')
        return HttpResult(405, b'')

    # ---------------------------------------------------------------- WebSocket
    def _ws(self, url):
        if self.ws_mode == 'refuse':
            raise Refuse(getattr(self, 'ws_refuse_kind', 'ws'))
        link = WsLink()
        link.established = False
        upgrade = 'sid=' in url
        self.ws_urls = getattr(self, 'ws_urls', []) + [url]

        def on_send(frame):
            self.ws_frames.append(frame)
            if upgrade and not link.established:
                self.upgrade_frames.append(frame)
                if frame == '2probe':
                    if self.probe_reply is not None:
                        link.to_client.append(self.probe_reply)
                elif frame == '5':
                    link.established = True
                    # everything queued for polling now travels on the WebSocket
                    link.to_client.extend(self.outbox)
                    self.outbox = []
                return
            t, d = decode_packet(frame)
            self.received.append(('websocket', t, d))
        link.on_send = on_send
        if not upgrade:
            if self.ws_mode == 'non-open':
                link.to_client.append('4hello')
            elif self.ws_mode != 'no-open':
                link.to_client.append(self.open_packet())
                link.to_client.extend(self.extras)
            link.established = True
        self.link = link
        return link

    def ws_close_frame(self):
        self.link.to_client.append(CLOSE_FRAME)

    def ws_eof(self):
        self.link.to_client.append(EOF)
