"""Simulated driver table for the threaded Server (what engineio.async_drivers.threading provides) and the
WSGI-side system-under-test adapter."""
from engineio import base_server, server as eio_server, socket as eio_socket

from .kernel import Kernel, Clock, NullLogger, KernelDead


class Empty(Exception):
    """queue_empty of the simulated driver."""


def make_async(k, ws_class):
    class SimThread:
        def __init__(self, target=None, args=(), kwargs=None, daemon=None):
            self.target, self.args, self.kwargs = target, args, kwargs or {}
            self.t = None

        def start(self):
            self.t = k.spawn_greenlet(self.target, *self.args, **self.kwargs)

        def join(self, timeout=None):
            self.t.join(timeout)

        def is_alive(self):
            return self.t is not None and not self.t.done_

    class SimQueue:
        """queue.Queue: FIFO, unfinished-task counter, task_done() raising ValueError below zero, join()."""
        def __init__(self, maxsize=0):
            self.items = []
            self.unfinished = 0

        def put(self, x, block=True, timeout=None):
            self.items.append(x)
            self.unfinished += 1

        def get(self, block=True, timeout=None):
            if not block:
                if not self.items:
                    raise Empty()
                return self.items.pop(0)
            dl = None if timeout is None else k.now + timeout
            if not k.block(lambda: len(self.items) > 0, dl, 'queue.get'):
                raise Empty()
            return self.items.pop(0)

        def task_done(self):
            if self.unfinished <= 0:
                raise ValueError('task_done() called too many times')
            self.unfinished -= 1

        def join(self):
            k.block(lambda: self.unfinished == 0, None, 'queue.join')

        def empty(self):
            return not self.items

        def qsize(self):
            return len(self.items)

    class SimEvent:
        def __init__(self):
            self.flag = False

        def is_set(self):
            if k.dead:
                return True
            return self.flag

        def set(self):
            self.flag = True

        def clear(self):
            self.flag = False

        def wait(self, timeout=None):
            dl = None if timeout is None else k.now + timeout
            return k.block(lambda: self.flag, dl, 'event.wait')

    def sleep(seconds=0):
        k.block(lambda: False, k.now + seconds, 'sleep')

    return {'thread': SimThread, 'queue': SimQueue, 'queue_empty': Empty, 'event': SimEvent,
            'websocket': ws_class, 'sleep': sleep}


class WsPeer:
    """Client end of a simulated WebSocket (both gateways)."""
    def __init__(self):
        self.to_server = []        # frames the client has sent, not yet read by the server
        self.frames = []           # frames the server sent (text str / bytes)
        self.client_closed = False
        self.client_failed = False
        self.closed_by_server = False
        self.accepted = False
        self.rejected = None
        self.sent_after_close = 0
        self.fail_accept = False   # the connection fails while the WebSocket is being accepted
        self.paused = False        # back-pressure: a write by the server does not complete until the client resumes reading
        self.slow = False          # slow link: every write by the server is a scheduling point (it yields once before it completes)

    def send(self, frame):
        self.to_server.append(frame)

    def close(self):
        self.client_closed = True

    def fail(self):
        self.client_failed = True
        self.client_closed = True


def make_ws_class(k):
    class SimWsgiWebSocket:
        """Mirrors async_drivers/_websocket_wsgi.SimpleWebSocketWSGI: wait() -> frame | None when the peer closed;
        send() raises OSError when the connection is closed; close() is idempotent."""
        def __init__(self, handler, server, **kwargs):
            self.app = handler

        def __call__(self, environ, start_response):
            self.peer = environ['sim.ws']
            if self.peer.fail_accept:
                # what simple_websocket.Server(environ) does when the socket cannot be obtained / the handshake fails
                raise RuntimeError('Cannot obtain socket from WSGI environment.')
            self.peer.accepted = True
            return self.app(self)

        def wait(self):
            p = self.peer
            k.block(lambda: len(p.to_server) > 0 or p.client_closed or p.closed_by_server, None, 'ws.wait')
            if p.to_server and not p.closed_by_server:
                return p.to_server.pop(0)
            return None

        def send(self, message):
            if k.dead:
                raise KernelDead()
            p = self.peer
            if p.paused:
                k.block(lambda: not p.paused or p.client_closed, None, 'ws.send (back-pressure)')
            elif p.slow:
                once = []
                k.block(lambda: bool(once) or once.append(1) or False, None, 'ws.send (slow link)')
            if p.client_closed or p.closed_by_server:
                p.sent_after_close += 1
                raise OSError('connection closed')
            p.frames.append(message)

        def close(self):
            self.peer.closed_by_server = True
    return SimWsgiWebSocket


class Reader:
    """wsgi.input that records every read(n)."""
    def __init__(self, body, log):
        self.body, self.log = body, log

    def read(self, n=None):
        self.log.append(n)
        if n is None or n < 0 or n >= len(self.body):
            # (compared, not sliced: slicing by a symbolic int would make the solver enumerate its values)
            r, self.body = self.body, b''
        else:
            r, self.body = self.body[:n], self.body[n:]
        return r


class Req:
    """Handle of one request / API call issued against a SUT."""
    def __init__(self, kind):
        self.kind = kind
        self.task = None
        self.sr_calls = []         # WSGI: raw start_response calls; ASGI: raw send() events
        self.ret = None
        self.exc = None
        self.peer = None

    @property
    def done(self):
        return self.task.done_


class _Secrets:
    """Deterministic stand-in for ``secrets`` in engineio.base_server (C17 treats the random source symbolically): every
    function of the module that yields random material is derived from one constant byte pattern; anything else is the real
    module's."""
    def __init__(self):
        self.n = 0

    def token_bytes(self, n=32):
        self.n += 1
        n = 32 if n is None else n
        return (b'\x51\x6c\x3b' * ((n + 2) // 3))[:n]

    def token_hex(self, n=32):
        return self.token_bytes(n).hex()

    def token_urlsafe(self, n=32):
        import base64
        return base64.urlsafe_b64encode(self.token_bytes(n)).rstrip(b'=').decode('ascii')

    def randbits(self, k_):
        return int.from_bytes(self.token_bytes((k_ + 7) // 8), 'big') >> ((-k_) % 8)

    def randbelow(self, n):
        return self.randbits(max(1, n.bit_length())) % n

    def choice(self, seq):
        return seq[self.randbelow(len(seq))]

    def __getattr__(self, name):
        import secrets as _real
        return getattr(_real, name)


class ThreadedSut:
    """engineio.Server(async_mode='threading') with every concurrency primitive taken from the kernel."""
    flavour = 'threaded'

    def __init__(self, k=None, choices=(), **cfg):
        self.k = k or Kernel(choices)
        self.logger = NullLogger()
        cfg.setdefault('monitor_clients', False)
        self.srv = eio_server.Server(async_mode='threading', logger=self.logger, **cfg)
        self.ws_class = make_ws_class(self.k)
        self.srv._async = make_async(self.k, self.ws_class if cfg.get('websocket_available', True) else None)
        self._patch()
        self.events = []
        self.reads = []
        self.connect_result = None     # value returned by the connect handler (or an Exception instance to raise)
        self.raise_in = {}             # event name -> Exception instance raised by that handler
        self.on_message = None         # optional callback(sid, data) executed inside the message handler
        srv = self.srv

        def on_connect(sid, environ):
            self.events.append(('connect', sid, None))
            r = self.connect_result
            if isinstance(r, BaseException):
                raise r
            return r

        def on_message(sid, data):
            self.events.append(('message', sid, data))
            if self.on_message:
                self.on_message(sid, data)
            if 'message' in self.raise_in:
                raise self.raise_in['message']

        def on_disconnect(sid, reason):
            self.events.append(('disconnect', sid, reason))
            if 'disconnect' in self.raise_in:
                raise self.raise_in['disconnect']
        srv.on('connect', on_connect)
        srv.on('message', on_message)
        srv.on('disconnect', on_disconnect)

    def _patch(self):
        self._saved = (eio_socket.time, base_server.secrets)
        eio_socket.time = Clock(self.k)
        base_server.secrets = _Secrets()

    def close(self):
        """Tear the kernel down and undo the module-global injections."""
        self.k.teardown()
        eio_socket.time, base_server.secrets = self._saved

    # ------------------------------------------------------------------ requests
    def environ(self, method, query, headers=None, body=b'', declared_len=None, scheme='http'):
        env = {'REQUEST_METHOD': method, 'QUERY_STRING': query, 'PATH_INFO': '/engine.io/',
               'wsgi.url_scheme': scheme, 'wsgi.input': Reader(body, self.reads), 'SERVER_NAME': 'sim'}
        if declared_len == 'absent':
            pass                    # no Content-Length header at all (chunked transfer encoding)
        elif declared_len is not None:
            env['CONTENT_LENGTH'] = declared_len if isinstance(declared_len, str) else str(declared_len)
        elif method == 'POST':
            env['CONTENT_LENGTH'] = str(len(body))
        for hk, hv in (headers or {}).items():
            env['HTTP_' + hk.upper().replace('-', '_')] = hv
        return env

    def request(self, method, query, headers=None, body=b'', declared_len=None, ws=None, scheme='http', env_extra=None):
        r = Req('http' if ws is None else 'websocket')
        env = self.environ(method, query, headers, body, declared_len, scheme)
        if ws is not None:
            env['sim.ws'] = ws
            r.peer = ws
        if env_extra:
            env.update(env_extra)
        r.env = env

        def start_response(status, hdrs, exc_info=None):
            r.sr_calls.append((status, hdrs))

        def task():
            try:
                r.ret = self.srv.handle_request(env, start_response)
            except KernelDead:
                raise
            except Exception as e:  # noqa
                r.exc = e
        r.task = self.k.spawn_greenlet(task, name='request %s %s' % (method, query))
        return r

    # results of a finished plain-HTTP request
    def status(self, r):
        if not r.sr_calls:
            return None
        return int(str(r.sr_calls[-1][0]).split(' ')[0])

    def headers(self, r):
        return list(r.sr_calls[-1][1]) if r.sr_calls else []

    def body(self, r):
        if r.ret is None:
            return b''
        return b''.join(r.ret)

    def open(self, transport='polling', headers=None, extra='', ws=None):
        q = 'transport=%s&EIO=4%s' % (transport, extra)
        if transport == 'websocket':
            ws = ws or WsPeer()
            h = {'Upgrade': 'websocket', 'Connection': 'Upgrade'}
            h.update(headers or {})
            return self.request('GET', q, h, ws=ws)
        return self.request('GET', q, headers)

    def get(self, sid, headers=None, extra=''):
        return self.request('GET', 'transport=polling&sid=%s%s' % (sid, extra), headers)

    def post(self, sid, body, declared_len=None, headers=None, extra=''):
        if isinstance(body, str):
            body = body.encode('utf-8')
        return self.request('POST', 'transport=polling&sid=%s%s' % (sid, extra), headers, body, declared_len)

    def ws_upgrade(self, sid, headers=None, peer=None):
        ws = peer or WsPeer()
        h = {'Upgrade': 'websocket', 'Connection': 'Upgrade'}
        h.update(headers or {})
        return self.request('GET', 'transport=websocket&sid=%s' % sid, h, ws=ws)

    # ------------------------------------------------------------------ application API
    def api(self, name, *args):
        r = Req('api')

        def task():
            try:
                r.ret = getattr(self.srv, name)(*args)
            except KernelDead:
                raise
            except Exception as e:  # noqa
                r.exc = e
        r.task = self.k.spawn_greenlet(task, name='api ' + name)
        return r

    def app_send(self, sid, data):
        return self.api('send', sid, data)

    def app_disconnect(self, sid=None):
        return self.api('disconnect', sid) if sid is not None else self.api('disconnect')

    def transport(self, sid):
        return self.srv.transport(sid)

    def live_sids(self):
        return sorted(self.srv.sockets.keys())

    def run(self, until=None):
        self.k.run(until)

    def settle(self):
        self.k.settle()

    def sids(self):
        out = []
        for kind, sid, _ in self.events:
            if kind == 'connect' and sid not in out:
                out.append(sid)
        return out
