"""Independent (not engineio) decoder of what a client sees on the wire."""
import base64
import json


def split_payload(text):
    """Polling body -> list of (type:int, data) ; binary packets come back as (4, bytes)."""
    if text == '':
        return []
    return [decode_packet(p) for p in text.split('\x1e')]


def decode_packet(p):
    if isinstance(p, (bytes, bytearray)):
        return (4, bytes(p))
    if p[:1] == 'b':
        return (4, base64.b64decode(p[1:]))
    return (int(p[0]), p[1:])


def open_info(data_text):
    return json.loads(data_text)


def jsonp_unwrap(body):
    """'___eio[N]("...");' -> (N, inner) using JS string-literal rules is in oracles.js; this is the raw splitter."""
    raise NotImplementedError
