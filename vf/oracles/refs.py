"""Reference models written independently of engineio (used as oracles)."""

B64 = 'ABCDEFGHIJKLMNOPQRSTUVWXYZabcdefghijklmnopqrstuvwxyz0123456789+/'


def ref_b64(b):
    """Standard base64 (RFC 4648 §4) by bit arithmetic, no library call."""
    out = ''
    n = len(b)
    i = 0
    while i + 3 <= n:
        v = (b[i] << 16) | (b[i + 1] << 8) | b[i + 2]
        out += B64[(v >> 18) & 63] + B64[(v >> 12) & 63] + B64[(v >> 6) & 63] + B64[v & 63]
        i += 3
    rem = n - i
    if rem == 1:
        v = b[i] << 16
        out += B64[(v >> 18) & 63] + B64[(v >> 12) & 63] + '=='
    elif rem == 2:
        v = (b[i] << 16) | (b[i + 1] << 8)
        out += B64[(v >> 18) & 63] + B64[(v >> 12) & 63] + B64[(v >> 6) & 63] + '='
    return out


def ref_json_str(s):
    """JSON string literal with ensure_ascii=True semantics (what json.dumps emits by default)."""
    out = '"'
    for ch in s:
        o = ord(ch)
        if ch == '"':
            out += '\\"'
        elif ch == '\\':
            out += '\\\\'
        elif ch == '\n':
            out += '\\n'
        elif ch == '\r':
            out += '\\r'
        elif ch == '\t':
            out += '\\t'
        elif ch == '\b':
            out += '\\b'
        elif ch == '\f':
            out += '\\f'
        elif o < 0x20 or o > 0x7e:
            if o > 0xffff:
                o -= 0x10000
                out += '\\u%04x\\u%04x' % (0xd800 | (o >> 10), 0xdc00 | (o & 0x3ff))
            else:
                out += '\\u%04x' % o
        else:
            out += ch
    return out + '"'


def ref_compact_json(v):
    """Compact JSON (separators ',' and ':') for the bounded value shapes used by the harnesses."""
    if v is None:
        return 'null'
    if v is True:
        return 'true'
    if v is False:
        return 'false'
    if isinstance(v, int):
        return str(v)
    if isinstance(v, str):
        return ref_json_str(v)
    if isinstance(v, list):
        return '[' + ','.join(ref_compact_json(x) for x in v) + ']'
    if isinstance(v, dict):
        return '{' + ','.join(ref_json_str(k) + ':' + ref_compact_json(x) for k, x in v.items()) + '}'
    raise TypeError(type(v))


def ref_wire_text(ptype, data):
    """Engine.IO v4 text-channel representation of a packet (type digit + payload)."""
    if isinstance(data, (bytes, bytearray)):
        return 'b' + ref_b64(bytes(data))
    if data is None:
        return str(ptype)
    if isinstance(data, str):
        return str(ptype) + data
    return str(ptype) + ref_compact_json(data)
