"""Evaluate a JavaScript double-quoted string literal by ES2019 rules (independent of engineio), and split the single
``___eio[N]("...");`` call statement a JSONP polling body must consist of."""


class JsError(Exception):
    pass


LINE_TERMINATORS = '\n\r'          # ES2019: U+2028/U+2029 are allowed unescaped inside string literals (JSON superset)
SINGLE = {'b': '\b', 't': '\t', 'n': '\n', 'v': '\v', 'f': '\f', 'r': '\r', '"': '"', "'": "'", '\\': '\\', '0': '\0'}
HEX = '0123456789abcdefABCDEF'


def eval_string_literal(src, i):
    """src[i] must be the opening double quote; returns (value, index after the closing quote)."""
    if i >= len(src) or src[i] != '"':
        raise JsError('no opening quote at %d' % i)
    i += 1
    out = []
    n = len(src)
    while True:
        if i >= n:
            raise JsError('unterminated string literal')
        ch = src[i]
        if ch == '"':
            return ''.join(out), i + 1
        if ch in LINE_TERMINATORS:
            raise JsError('raw line terminator U+%04X inside string literal' % ord(ch))
        if ch != '\\':
            out.append(ch)
            i += 1
            continue
        # escape sequence
        i += 1
        if i >= n:
            raise JsError('dangling backslash')
        e = src[i]
        if e == '\r' and i + 1 < n and src[i + 1] == '\n':     # line continuation
            i += 2
            continue
        if e in '\n\r  ':
            i += 1
            continue
        if e == 'x':
            h = src[i + 1:i + 3]
            if len(h) != 2 or any(c not in HEX for c in h):
                raise JsError('bad \\x escape')
            out.append(chr(int(h, 16)))
            i += 3
            continue
        if e == 'u':
            if i + 1 < n and src[i + 1] == '{':
                j = src.find('}', i + 2)
                h = src[i + 2:j] if j > 0 else ''
                if not h or any(c not in HEX for c in h) or int(h, 16) > 0x10ffff:
                    raise JsError('bad \\u{} escape')
                out.append(chr(int(h, 16)))
                i = j + 1
                continue
            h = src[i + 1:i + 5]
            if len(h) != 4 or any(c not in HEX for c in h):
                raise JsError('bad \\u escape')
            out.append(chr(int(h, 16)))
            i += 5
            continue
        if e == '0' and not (i + 1 < n and src[i + 1].isdigit()):
            out.append('\0')
            i += 1
            continue
        if e in '0123456789':
            # legacy octal escapes (sloppy mode); 8 and 9 are identity escapes
            if e in '89':
                out.append(e)
                i += 1
                continue
            j = i
            digits = ''
            while j < n and len(digits) < 3 and src[j] in '01234567':
                if len(digits) == 2 and digits[0] not in '0123':
                    break
                digits += src[j]
                j += 1
            out.append(chr(int(digits, 8)))
            i = j
            continue
        if e in SINGLE:
            out.append(SINGLE[e])
        else:
            out.append(e)           # identity escape
        i += 1


def surrogates_to_text(s):
    """JS strings are UTF-16 code-unit sequences: join surrogate pairs produced by \\uD83D\\uDE00 style escapes."""
    out = []
    i = 0
    while i < len(s):
        c = ord(s[i])
        if 0xd800 <= c < 0xdc00 and i + 1 < len(s) and 0xdc00 <= ord(s[i + 1]) < 0xe000:
            out.append(chr(0x10000 + ((c - 0xd800) << 10) + (ord(s[i + 1]) - 0xdc00)))
            i += 2
        else:
            out.append(s[i])
            i += 1
    return ''.join(out)


def parse_jsonp(body):
    """body must be exactly  ___eio[<digits>]("<string literal>");  -> (index, evaluated string)."""
    head = '___eio['
    if not body.startswith(head):
        raise JsError('does not start with ___eio[')
    j = body.find(']', len(head))
    if j < 0:
        raise JsError('no ]')
    idx = body[len(head):j]
    if not idx or any(c not in '0123456789' for c in idx):
        raise JsError('index %r is not a decimal integer' % idx)
    if body[j + 1:j + 2] != '(':
        raise JsError('no ( after the index')
    val, k = eval_string_literal(body, j + 2)
    if body[k:] != ');':
        raise JsError('trailing text %r after the string literal (statement not closed where it should be)' % body[k:k + 20])
    return int(idx), surrogates_to_text(val)
