"""C20 Gateway middleware routes by path only and static files stay inside their roots."""
import posixpath
import types

from vf.rt import P, cond, verdict, fail, untraced
from engineio import middleware as eio_mw, static_files
from engineio.async_drivers import asgi as eio_asgi

PROP = 'C20'
EXPLANATION = ('Unit level: get_static_file, WSGIApp.__call__ and ASGIApp.__call__/lifespan run on a SYMBOLIC request path '
               '("/" + symbolic Unicode tail), symbolic selectors for the endpoint setting, static mapping, presence of a wrapped '
               'app and a symbolic "file exists" answer; the oracle is a reference router and a lexical containment check of the '
               'path handed to open().')
STUBS = ['engineio.middleware.os / async_drivers.asgi.os: os.path.exists() answers a symbolic bool and records the path',
         'module-level open() of both modules records the path and returns a fixed body',
         'Engine.IO server / wrapped application: recording stubs']
OUTSIDE = ['path tails longer than the stated bound', 'static mappings and endpoint settings outside the tables',
           'percent-decoding (done by the web server before the middleware sees the path)', 'symbolic links on the real file system']
NOT_CONSTRAINED = ['the bare endpoint path without trailing slash (the two gateways differ on it)',
                   'whether a path containing ".." segments that stays inside the mapped directory is served or refused']
ASSUMPTIONS = []

ROOT = '/srv/public'
MAPS = (
    {'/static': ROOT},
    {'/static/': ROOT + '/'},
    {'/': '/srv/index.html', '/static': {'filename': ROOT, 'content_type': 'x/y'}},
    {'/static': ROOT, '': 'default.htm'},
    {'/s': {'filename': '/srv/p/'}, '/s/a.css': '/srv/special.css', '': {'filename': 'idx.xml', 'content_type': 'text/xml'}},
    {'/file.js': '/srv/one.js'},
    # targets whose CONFIGURED name goes through a parent directory (a common deployment: static files next to the package)
    {'/static': '../public', '/up.html': '../client/index.html', '/abs': ROOT + '/../shared'},
)
TYPES = {'css': 'text/css', 'gif': 'image/gif', 'html': 'text/html', 'jpg': 'image/jpeg', 'js': 'application/javascript',
         'json': 'application/json', 'png': 'image/png', 'txt': 'text/plain'}


def _roots(mapping):
    """[(url key, local target, is_dir_semantic)] for the non-default entries."""
    out = []
    for k, v in mapping.items():
        out.append((k, v if isinstance(v, str) else v['filename']))
    return out


def _beneath(filename, target):
    """Lexically: filename is the target itself or lies beneath it (after normalisation)."""
    nf = posixpath.normpath(filename)
    nt = posixpath.normpath(target)
    return nf == nt or nf.startswith(nt.rstrip('/') + '/')


def _check_static(path, mapping, f):
    """Oracle for one get_static_file() answer."""
    roots = _roots(mapping)
    if f is None:
        # refused: fine unless the path IS a mapped key or a plain (dot-free) descendant of a mapped directory
        for k, target in roots:
            if path == k and k != '':
                return 'path %r equals mapping key %r but nothing is served' % (path, k)
        return ''
    fn = f.get('filename')
    if not isinstance(fn, str):
        return 'filename %r' % (fn,)
    # some mapping must match the request path ...
    # (the default-file entry '' is treated by the implementation as a mapping of the URL root: accepted, its target is
    # the default file name itself, so nothing outside it can be reached)
    matched = [(k, t) for k, t in roots if path == k or path.startswith(k.rstrip('/') + '/') or (k.endswith('/') and path + '/' == k)]
    if not matched:
        return 'path %r matches no mapping but %r would be served' % (path, fn)
    # ... and the file must be that mapping's target or beneath it
    if not any(_beneath(fn, t) for k, t in matched):
        return 'path %r -> file %r is outside the mapped target(s) %r' % (path, fn, [t for k, t in matched])
    ct = f.get('content_type')
    explicit = [v['content_type'] for v in mapping.values() if isinstance(v, dict) and 'content_type' in v]
    ext = fn.rsplit('.')[-1]
    if ct != TYPES.get(ext, 'application/octet-stream') and ct not in explicit:
        return 'content type %r for %r' % (ct, fn)
    return ''


@cond(quick=dict(S=3, SM=2, timeout=170, parts=dict(M=[0, 1, 5, 6])), thorough=dict(S=3, SM=2, timeout=900, parts=dict(M=list(range(len(MAPS))))))
def static_resolution(tail: str, mi: int) -> str:
    """
    pre: mi == P.M and len(tail) <= (P.S if P.M in (0, 1, 5, 6) else P.SM)
    post: _ == ''
    """
    path = '/' + tail
    try:
        f = static_files.get_static_file(path, MAPS[mi])
    except Exception as e:  # noqa
        return verdict(fail(PROP, 'STATIC-RAISES', 'get_static_file(%r) raised %s' % (path, type(e).__name__)))
    m = _check_static(path, MAPS[mi], f)
    return verdict(fail(PROP, 'STATIC-RESOLUTION', m) if m else '')


PREFIXES = ('', 'static', 'static/', 'static/a/', 's/', 'engine.io', 'engine.io/', 'engine.iox', 'eio/x/', 'static/..', 'static//')


KEYS = ('/static', '/s', '/file.js', '', '/static/sub', '/STATIC')
SEGS = ('', '.', '..', 'a', 'a.css', 'b.JS', 'static', 'index.html', 'x.unknown', '%2e%2e', '...', '..a', ' ', 'srv')


def _static_table(mi, ki, s1, s2, s3, n, slash):
    path = KEYS[ki] + ''.join('/' + SEGS[x] for x in (s1, s2, s3)[:n]) + ('/' if slash else '')
    if not path.startswith('/'):
        path = '/' + path
    try:
        f = static_files.get_static_file(path, MAPS[mi])
    except Exception as e:  # noqa
        return fail(PROP, 'STATIC-RAISES', 'get_static_file(%r) raised %s' % (path, type(e).__name__))
    m = _check_static(path, MAPS[mi], f)
    return fail(PROP, 'STATIC-RESOLUTION', m) if m else ''


@cond(quick=dict(N=2, timeout=170, parts=dict(M=list(range(len(MAPS))))), thorough=dict(N=2, timeout=600, parts=dict(M=list(range(len(MAPS))))))
def static_resolution_segments(mi: int, ki: int, s1: int, s2: int, s3: int, n: int, slash: bool) -> str:
    """
    pre: mi == P.M and 0 <= ki < len(KEYS) and 0 <= s1 < len(SEGS) and 0 <= s2 < len(SEGS) and 0 <= s3 < len(SEGS)
    pre: 0 <= n <= P.N and (n >= 3 or s3 == 0) and (n >= 2 or s2 == 0) and (n >= 1 or s1 == 0)
    post: _ == ''
    """
    # deep paths built from '.', '..', empty, encoded and ordinary segments under / beside every mapping key
    return verdict(untraced(_static_table, mi, ki, s1, s2, s3, n, slash))


ENDPOINTS = ('engine.io', '/engine.io/', 'eio/x', '/', 'socket.io/')


class _FS:
    def __init__(self, exists):
        self.exists_answer = exists
        self.asked = []
        self.opened = []
        self.path = types.SimpleNamespace(exists=self._exists)

    def _exists(self, p):
        self.asked.append(p)
        return self.exists_answer

    def open(self, p, mode='r'):
        self.opened.append(p)
        fs = self

        class F:
            def __enter__(self):
                return self

            def __exit__(self, *a):
                return False

            def read(self):
                return b'FILE:' + p.encode('utf-8')
        return F()


def _norm_ep(ep):
    if not ep.startswith('/'):
        ep = '/' + ep
    if not ep.endswith('/'):
        ep += '/'
    return ep


def _expect(path, ep, mapping, has_app, exists, fs_open):
    """Reference router -> 'engine' | 'file' | 'app' | '404' | None (not constrained)."""
    if path.startswith(ep):
        return 'engine'
    if path + '/' == ep:
        return None
    if mapping:
        f = static_files.get_static_file(path, mapping)       # resolution itself is judged by static_resolution*
        if f and exists:
            return 'file'
    return 'app' if has_app else '404'


def _wsgi(path, ei, mi, has_app, exists):
    fs = _FS(exists)
    calls = []
    eng = types.SimpleNamespace(handle_request=lambda env, sr: calls.append('engine') or [b'ENGINE'])

    def app(env, sr):
        calls.append('app')
        sr('200 OK', [])
        return [b'APP']
    mapping = MAPS[mi] if mi >= 0 else None
    mw = eio_mw.WSGIApp(eng, app if has_app else None, static_files=mapping, engineio_path=ENDPOINTS[ei])
    saved = (eio_mw.os, getattr(eio_mw, 'open', None))
    eio_mw.os = fs
    eio_mw.open = fs.open
    sr_calls = []
    try:
        body = mw({'PATH_INFO': path, 'REQUEST_METHOD': 'GET'}, lambda s, h: sr_calls.append((s, h)))
        body = b''.join(body)
    finally:
        eio_mw.os = saved[0]
        if saved[1] is None:
            del eio_mw.open
        else:
            eio_mw.open = saved[1]
    want = _expect(path, _norm_ep(ENDPOINTS[ei]), mapping, has_app, exists, fs)
    got = 'engine' if calls == ['engine'] else 'app' if calls == ['app'] else \
        'file' if fs.opened else '404' if (sr_calls and sr_calls[0][0].startswith('404')) else 'other'
    if want is not None and got != want:
        return 'WSGI path %r endpoint %r mapping#%d app=%s exists=%s: routed to %s, expected %s' % (
            path, ENDPOINTS[ei], mi, has_app, exists, got, want)
    if got == 'file':
        f = static_files.get_static_file(path, mapping)
        if fs.opened != [f['filename']] or not body.startswith(b'FILE:'):
            return 'WSGI served %r for %r' % (fs.opened, path)
        if sr_calls != [('200 OK', [('Content-Type', f['content_type'])])]:
            return 'WSGI static response %r' % (sr_calls,)
    return ''


def _run(coro):
    try:
        while True:
            coro.send(None)
    except StopIteration as e:
        return e.value


def _asgi(path, ei, mi, has_app, exists, scope_type):
    fs = _FS(exists)
    calls = []

    class Eng:
        async def handle_request(self, scope, receive, send):
            calls.append('engine')

    async def other(scope, receive, send):
        calls.append('app')
    mapping = MAPS[mi] if mi >= 0 else None
    mw = eio_asgi.ASGIApp(Eng(), other if has_app else None, static_files=mapping, engineio_path=ENDPOINTS[ei])
    saved = (eio_asgi.os, getattr(eio_asgi, 'open', None))
    eio_asgi.os = fs
    eio_asgi.open = fs.open
    sent = []

    async def receive():
        return {'type': 'http.request' if scope_type == 'http' else 'websocket.connect'}

    async def send(ev):
        sent.append(ev)
    try:
        _run(mw({'type': scope_type, 'path': path}, receive, send))
    finally:
        eio_asgi.os = saved[0]
        if saved[1] is None:
            del eio_asgi.open
        else:
            eio_asgi.open = saved[1]
    ep = _norm_ep(ENDPOINTS[ei])
    want = _expect(path, ep, mapping if scope_type == 'http' else None, has_app, exists, fs)
    got = 'engine' if calls == ['engine'] else 'app' if calls == ['app'] else \
        'file' if fs.opened else '404' if (sent and sent[0].get('status') == 404) else 'other'
    if want is not None and got != want:
        return 'ASGI %s path %r endpoint %r mapping#%d app=%s exists=%s: routed to %s, expected %s' % (
            scope_type, path, ENDPOINTS[ei], mi, has_app, exists, got, want)
    if got == 'file':
        f = static_files.get_static_file(path, mapping)
        if fs.opened != [f['filename']]:
            return 'ASGI served %r for %r' % (fs.opened, path)
        if [e.get('type') for e in sent] != ['http.response.start', 'http.response.body'] or sent[0].get('status') != 200 or \
                sent[0].get('headers') != [(b'Content-Type', f['content_type'].encode('utf-8'))]:
            return 'ASGI static response %r' % (sent,)
    return ''


@cond(quick=dict(S=1, timeout=170, parts=dict(G=[0, 1], E=[0, 2, 3])), thorough=dict(S=1, timeout=900, parts=dict(G=[0, 1], E=list(range(len(ENDPOINTS))))))
def routing(g: int, pi: int, tail: str, ei: int, mi: int, has_app: bool, exists: bool, ws_scope: bool) -> str:
    """
    pre: g == P.G and 0 <= pi < len(PREFIXES) and len(tail) <= P.S and 0 <= ei < len(ENDPOINTS) and -1 <= mi <= 0
    pre: (not hasattr(P, 'E') or ei == P.E) and (g == 1 or not ws_scope)
    post: _ == ''
    """
    path = '/' + PREFIXES[pi] + tail
    try:
        if g == 0:
            m = _wsgi(path, ei, mi, has_app, exists)
        else:
            m = _asgi(path, ei, mi, has_app, exists, 'websocket' if ws_scope else 'http')
    except Exception as e:  # noqa
        m = 'gateway raised %s: %s for path %r' % (type(e).__name__, e, path)
    return verdict(fail(PROP, 'ROUTING', m, gateway='wsgi' if g == 0 else 'asgi') if m else '')


LIFE = (['lifespan.startup', 'lifespan.shutdown'], ['lifespan.startup'], ['lifespan.shutdown'], ['lifespan.startup', 'lifespan.startup', 'lifespan.shutdown'])
CALLBACKS = ('none', 'sync', 'async', 'sync-raises', 'async-raises', 'sync-base-raises', 'async-cancelled-raises')


class _Fatal(BaseException):
    """What a start-up hook that gives up raises (sys.exit() and KeyboardInterrupt are of this kind: not an Exception)."""



def _lifespan(li, su, sd, has_app):
    log = []

    def mk_cb(kind, name):
        if kind == 'none':
            return None
        if kind == 'sync':
            return lambda: log.append(name)
        if kind == 'sync-raises':
            def f():
                raise RuntimeError(name)
            return f
        if kind == 'async':
            async def g():
                log.append(name)
            return g
        if kind == 'sync-base-raises':
            def fb():
                raise _Fatal(name)
            return fb
        if kind == 'async-cancelled-raises':
            async def hc():
                import asyncio
                raise asyncio.CancelledError()
            return hc

        async def h():
            raise RuntimeError(name)
        return h
    forwarded = []

    async def other(scope, receive, send):
        forwarded.append(scope['type'])
    events = list(LIFE[li])
    sent = []

    async def receive():
        return {'type': events.pop(0)} if events else {'type': 'lifespan.shutdown'}

    async def send(ev):
        sent.append(ev['type'])
    mw = eio_asgi.ASGIApp(types.SimpleNamespace(), other if has_app else None,
                          on_startup=mk_cb(CALLBACKS[su], 'up'), on_shutdown=mk_cb(CALLBACKS[sd], 'down'))
    desc = 'events %r startup=%s shutdown=%s wrapped=%s' % (LIFE[li], CALLBACKS[su], CALLBACKS[sd], has_app)
    try:
        _run(mw({'type': 'lifespan'}, receive, send))
    except (Exception, _Fatal) as e:
        return '%s: %s escaped from the application (sent %r)' % (desc, type(e).__name__, sent)
    except BaseException as e:      # noqa  (asyncio.CancelledError is a BaseException)
        if type(e).__name__ == 'CancelledError':
            return '%s: CancelledError escaped from the application (sent %r)' % (desc, sent)
        raise
    if has_app and CALLBACKS[su] == 'none' and CALLBACKS[sd] == 'none':
        if forwarded != ['lifespan'] or sent:
            return '%s: lifespan not passed to the wrapped app (forwarded %r, sent %r)' % (desc, forwarded, sent)
        return ''
    # reference: answer per protocol, stop after a failure or after shutdown
    want = []
    for ev in LIFE[li]:
        if ev == 'lifespan.startup':
            if CALLBACKS[su].endswith('raises'):
                want.append('lifespan.startup.failed')
                break
            want.append('lifespan.startup.complete')
        else:
            if CALLBACKS[sd].endswith('raises'):
                want.append('lifespan.shutdown.failed')
            else:
                want.append('lifespan.shutdown.complete')
            break
    else:
        want.append('lifespan.shutdown.failed' if CALLBACKS[sd].endswith('raises') else 'lifespan.shutdown.complete')
    if sent != want:
        return '%s: sent %r, expected %r' % (desc, sent, want)
    return ''


@cond(quick=dict(timeout=120), thorough=dict(timeout=300))
def lifespan(li: int, su: int, sd: int, has_app: bool) -> str:
    """
    pre: 0 <= li < len(LIFE) and 0 <= su < len(CALLBACKS) and 0 <= sd < len(CALLBACKS)
    post: _ == ''
    """
    m = untraced(_lifespan, li, su, sd, has_app)
    return verdict(fail(PROP, 'LIFESPAN', m) if m else '')
