"""C06 WebSocket upgrade completes only via the probe handshake; failure is harmless."""
from vf.rt import P, cond, verdict, fail, untraced
from vf.props.common import mk, packets_of, WsPeer, SIM_STUBS, SIM_OUTSIDE

PROP = 'C06'
EXPLANATION = ('Whole-server level, both servers (the asyncio one through the real ASGI WebSocket driver): the frames a client '
               'sends on the upgrade socket are chosen by symbolic selectors from a table (correct, wrong type, wrong payload, '
               'oversize, empty, binary, undecodable, peer closes, transport error), together with poll-pending, sends before / '
               'during the attempt and the transports setting; the reference says exactly when the session may be on WebSocket, '
               'and a failed attempt is followed by polling reads and a fresh correct handshake.')
STUBS = SIM_STUBS
OUTSIDE = SIM_OUTSIDE + ['frame values outside the table', 'more than three frames on the upgrade socket before the verdict']
NOT_CONSTRAINED = ['allow_upgrades=False only stops the upgrade being advertised (C11); whether an unadvertised upgrade request is '
                   'refused is not stated', 'what the refused second upgrade request is answered with (it may raise: it is an upgrade request)',
                   'an oversize frame during the handshake may also end the session (C14)']
ASSUMPTIONS = ['cooperative scheduling only']

OVERSIZE = '4' + 'x' * 40
FRAMES = ('2probe', '5', '2prob', '3probe', '2', '5x', '4x', '6', '', b'\x00', 'x', OVERSIZE, 'CLOSE', 'FAIL', '2probe ', '1', 'ACCEPT-FAILS')


def _send_frame(peer, f):
    if f == 'CLOSE':
        peer.close()
    elif f == 'FAIL':
        peer.fail()
    else:
        peer.send(f)


def _msgs(pkts):
    return [d for t, d in pkts if t == 4]


def _handshake(fl, a, b, n, pending, pre_send, mid_send, c=0):
    sut = mk(fl, async_handlers=False, max_http_buffer_size=30)
    try:
        sut.open('polling')
        sut.settle()
        sid = sut.sids()[0]
        frames = [FRAMES[a], FRAMES[b], FRAMES[c]][:n]
        if 'ACCEPT-FAILS' in frames[1:]:
            return ''          # the accept fault only exists as the first event on the socket
        st = dict(flavour=sut.flavour, frames=repr(frames), pending=bool(pending))
        sent = []
        if pre_send:
            sut.app_send(sid, 'm-pre')
            sent.append('m-pre')
            sut.settle()
        polls = []
        if pending:
            if pre_send:
                g0 = sut.get(sid)
                sut.settle()
                polls.append(g0)
            g1 = sut.get(sid)
            sut.settle()
            polls.append(g1)
        first_peer = WsPeer()
        if frames[:1] == ['ACCEPT-FAILS']:
            first_peer.fail_accept = True       # the connection fails while the server accepts the WebSocket
        u = sut.ws_upgrade(sid, peer=first_peer)
        sut.settle()
        peer = u.peer
        for i, f in enumerate(frames):
            if f == 'ACCEPT-FAILS' or first_peer.fail_accept:
                continue
            _send_frame(peer, f)
            sut.settle()
            if i == 0 and mid_send:
                sut.app_send(sid, 'm-mid')
                sent.append('m-mid')
                sut.settle()
        ok_handshake = n >= 2 and frames[0] == '2probe' and isinstance(frames[1], str) and frames[1][:1] == '5' and len(frames[1]) <= 30
        if ok_handshake and n == 3:
            return ''          # a third frame after a completed handshake is ordinary WebSocket traffic (C04)
        ended = [1 for k, s, x in sut.events if k == 'disconnect']
        try:
            tr = sut.transport(sid)
        except KeyError:
            tr = 'dead'
        if tr == 'websocket' and not ok_handshake:
            return fail(PROP, 'UPGRADED-WITHOUT-HANDSHAKE', 'frames %r put the session on websocket' % (frames,), **st)
        if ok_handshake:
            if tr != 'websocket':
                return fail(PROP, 'HANDSHAKE-NOT-HONOURED', 'correct handshake, transport is %s' % tr, **st)
            if '3probe' not in peer.frames[:1]:
                return fail(PROP, 'PROBE-NOT-ANSWERED', 'server frames %r' % (peer.frames,), **st)
            # a further upgrade attempt is refused and does not disturb the established WebSocket
            u2 = sut.ws_upgrade(sid)
            sut.settle()
            u2.peer.send('2probe')
            sut.settle()
            u2.peer.send('5')
            sut.settle()
            if '3probe' in u2.peer.frames:
                return fail(PROP, 'SECOND-UPGRADE-ACCEPTED', 'second upgrade got %r' % (u2.peer.frames,), **st)
            sut.app_send(sid, 'm-after')
            sut.settle()
            if '4m-after' not in peer.frames or peer.closed_by_server:
                return fail(PROP, 'SECOND-UPGRADE-DISTURBS', 'after a refused second upgrade the first socket got %r (closed=%s)' % (
                    peer.frames, peer.closed_by_server), **st)
            if [1 for k, s, x in sut.events if k == 'disconnect']:
                return fail(PROP, 'SECOND-UPGRADE-DISTURBS', 'session ended by a second upgrade attempt', **st)
            return ''
        # failed / incomplete attempt
        if n == 2 and frames[0] == '2probe' and not ok_handshake and frames[1] not in ('CLOSE', 'FAIL') and False:
            pass
        if ended:
            if OVERSIZE in frames:
                return ''           # C14 allows an oversize frame to end the session
            return fail(PROP, 'FAILED-UPGRADE-ENDS-SESSION', 'frames %r ended the session' % (frames,), **st)
        if not peer.client_closed:
            peer.close()            # the client gives up on this socket
            sut.settle()
        if tr != 'polling':
            return fail(PROP, 'FAILED-UPGRADE-TRANSPORT', 'transport %s after frames %r' % (tr, frames), **st)
        # everything queued is still retrievable by polling
        sut.app_send(sid, 'm-post')
        sent.append('m-post')
        sut.settle()
        got = []
        for g in polls:
            if g.done and sut.status(g) == 200:
                got += _msgs(packets_of(sut, g))
        for _ in range(4):
            if got == sent:
                break
            g = sut.get(sid)
            sut.settle()
            if not g.done:
                # nothing queued: fine only if everything has been delivered
                break
            if sut.status(g) != 200:
                return fail(PROP, 'FAILED-UPGRADE-POLLING', 'poll after failed upgrade %r answered %r' % (frames, sut.status(g)), **st)
            got += _msgs(packets_of(sut, g))
        if got != sent:
            return fail(PROP, 'FAILED-UPGRADE-POLLING', 'after frames %r polling delivered %r of %r' % (frames, got, sent), **st)
        # ... and a later correct handshake succeeds
        u3 = sut.ws_upgrade(sid)
        sut.settle()
        u3.peer.send('2probe')
        sut.settle()
        u3.peer.send('5')
        sut.settle()
        try:
            tr3 = sut.transport(sid)
        except KeyError:
            tr3 = 'dead'
        if tr3 != 'websocket' or '3probe' not in u3.peer.frames:
            return fail(PROP, 'LATER-UPGRADE-IMPOSSIBLE', 'after frames %r a correct handshake gives transport %s frames %r' % (
                frames, tr3, u3.peer.frames), **st)
        return ''
    finally:
        sut.close()


@cond(quick=dict(timeout=170, parts=dict(FL=[0, 1])), thorough=dict(timeout=900, parts=dict(FL=[0, 1])))
def handshake_frames(fl: int, a: int, b: int, n: int, pending: bool, pre_send: bool, mid_send: bool) -> str:
    """
    pre: fl == P.FL and 0 <= a < len(FRAMES) and 0 <= b < len(FRAMES) and 0 <= n <= 2 and (n == 2 or b == 0) and (n >= 1 or a == 0)
    pre: (a == 0 or b <= 1) or (not pending and not pre_send and not mid_send)
    post: _ == ''
    """
    return verdict(untraced(_handshake, fl, a, b, n, pending, pre_send, mid_send))


TCFG = (None, ['polling'], ['websocket'], 'websocket')


def _transports(fl, ti, ws_first, via_polling_query=False):
    kw = {}
    if TCFG[ti] is not None:
        kw['transports'] = TCFG[ti]
    allowed = TCFG[ti] or ['polling', 'websocket']
    if isinstance(allowed, str):
        allowed = [allowed]
    sut = mk(fl, async_handlers=False, **kw)
    try:
        st = dict(flavour=sut.flavour, transports=repr(TCFG[ti]))
        if ws_first:
            r = sut.open('websocket')
            sut.settle()
            if 'websocket' not in allowed:
                if sut.sids() or r.peer.frames:
                    return fail(PROP, 'DISALLOWED-TRANSPORT-USED', 'websocket open admitted', **st)
                return ''
            sid = sut.sids()[0]
            # in WebSocket mode from its OPEN packet on
            if sut.transport(sid) != 'websocket' or not r.peer.frames or r.peer.frames[0][:1] != '0':
                return fail(PROP, 'WS-FIRST-MODE', 'transport %s frames %r' % (sut.transport(sid), r.peer.frames[:1]), **st)
            g = sut.get(sid)
            sut.settle()
            if g.done and sut.status(g) == 200 and _msgs(packets_of(sut, g)):
                return fail(PROP, 'WS-FIRST-MODE', 'polling read on a websocket session returned messages', **st)
            return ''
        r = sut.open('polling')
        sut.settle()
        if 'polling' not in allowed:
            if sut.sids() or sut.status(r) == 200:
                return fail(PROP, 'DISALLOWED-TRANSPORT-USED', 'polling open admitted (status %r)' % sut.status(r), **st)
            return ''
        sid = sut.sids()[0]
        if via_polling_query:
            # the upgrade request names the session's CURRENT transport in the query (transport=polling) and asks for the
            # switch only through its Upgrade / Connection headers
            from vf.props.common import WsPeer as _WsPeer
            u = sut.request('GET', 'transport=polling&sid=' + sid, {'Upgrade': 'websocket', 'Connection': 'Upgrade'}, ws=_WsPeer())
            st['upgrade_request'] = 'transport=polling + Upgrade header'
        else:
            u = sut.ws_upgrade(sid)
        sut.settle()
        u.peer.send('2probe')
        sut.settle()
        u.peer.send('5')
        sut.settle()
        tr = sut.transport(sid)
        if 'websocket' not in allowed and (tr == 'websocket' or u.peer.frames):
            return fail(PROP, 'DISALLOWED-TRANSPORT-USED', 'upgrade to websocket on a polling-only server (frames %r)' % (u.peer.frames,), **st)
        if 'websocket' in allowed and tr != 'websocket' and not via_polling_query:
            return fail(PROP, 'HANDSHAKE-NOT-HONOURED', 'transport %s' % tr, **st)
        return ''
    finally:
        sut.close()


@cond(quick=dict(timeout=120), thorough=dict(timeout=300))
def transports_setting(fl: int, ti: int, ws_first: bool, via_polling_query: bool) -> str:
    """
    pre: 0 <= fl <= 1 and 0 <= ti < len(TCFG) and (not via_polling_query or not ws_first)
    post: _ == ''
    """
    return verdict(untraced(_transports, fl, ti, ws_first, via_polling_query))


from vf.validate.stubs import ALL as VALIDATE  # noqa: E402  (stub-vs-real conformance, run before the obligations)


@cond(thorough=dict(timeout=1500, parts=dict(FL=[0, 1])))
def handshake_three_frames(fl: int, a: int, b: int, c: int, pending: bool) -> str:
    """
    pre: fl == P.FL and 0 <= a < len(FRAMES) and 0 <= b < len(FRAMES) and 0 <= c < len(FRAMES)
    post: _ == ''
    """
    # thorough tier only: every sequence of three frames on the upgrade socket
    return verdict(untraced(_hs3, fl, a, b, c, pending))


def _hs3(fl, a, b, c, pending):
    return _handshake(fl, a, b, 3, pending, True, False, c)
