"""C05 Session events: connect first, one disconnect with the true reason, none after."""
from vf.rt import P, cond, verdict, fail, untraced
from vf.props.common import mk, packets_of, WsPeer, SIM_STUBS, SIM_OUTSIDE, blocked_in_close_join

PROP = 'C05'
EXPLANATION = ('Whole-server level, both servers, three transport modes (polling, WebSocket-first, upgraded): bounded histories of '
               'stimuli chosen by solver-enumerated selectors from an alphabet of traffic and end causes (CLOSE packet, disconnect(sid), '
               'disconnect(), heartbeat deadline passed then send / monitor sweep, WebSocket drop, poll timeout, protocol error), '
               'handler exceptions of several types (incl. TypeError and a legacy one-argument disconnect handler) and connect outcomes; '
               'a regular-language monitor reads the application handler log; exception containment is checked differentially '
               'against the same history without the exception. Added later: two end causes injected in the same instant with selector-chosen '
               'scheduling decisions (racing_ends), a slow - blocking / awaiting - disconnect handler with a follow-up stimulus arriving '
               'while it still runs (slow_disconnect_handler), and the request task being cancelled by the web server in the middle of it.')
STUBS = SIM_STUBS
OUTSIDE = SIM_OUTSIDE + ['histories longer than 3 stimuli after the open', 'more than 2 sessions', 'races of more than two end causes; more than 3 '
                         'scheduling decisions chosen by selectors (racing_ends)']
NOT_CONSTRAINED = ['which of two end causes injected at the same virtual instant is named', 'protocol errors may be reported as '
                   '"server disconnect" or "transport error"', 'packets that follow a CLOSE inside the same POST body']
ASSUMPTIONS = ['cooperative scheduling only']

ACTIONS = ('message', 'close-packet', 'disconnect-sid', 'disconnect-all', 'deadline-then-send', 'ws-drop', 'poll-timeout',
           'protocol-error', 'poll', 'send', 'deadline-then-close-packet', 'late-frame-after-close', 'post-to-other',
           'close-packet-request-cancelled')
ENDS = {'close-packet': ('client disconnect',), 'disconnect-sid': ('server disconnect',), 'disconnect-all': ('server disconnect',),
        'deadline-then-send': ('ping timeout',), 'ws-drop': ('transport close', 'transport error'),
        'poll-timeout': ('transport error', 'transport close', 'ping timeout'),
        'protocol-error': ('server disconnect', 'transport error'),
        'deadline-then-close-packet': ('client disconnect', 'ping timeout'),
        'late-frame-after-close': ('client disconnect',), 'close-packet-request-cancelled': ('client disconnect',)}
EXCS = (None, RuntimeError('boom'), TypeError('bad operand'), KeyError('k'), ZeroDivisionError('z'))
MODES = ('polling', 'websocket', 'upgraded')


def _applicable(action, mode):
    if action in ('ws-drop', 'late-frame-after-close'):
        return mode != 'polling'
    if action in ('poll-timeout', 'poll'):
        return mode == 'polling'
    if action in ('protocol-error', 'close-packet-request-cancelled'):
        return mode == 'polling'
    return True


def _run_history(fl, mode, acts, msg_exc, disc_exc, legacy, monitor_on=False):
    sut = mk(fl, async_handlers=False, monitor_clients=monitor_on)
    log = {'injected': []}
    try:
        if legacy:
            # legacy applications register a disconnect handler without the reason argument
            def legacy_disconnect(sid):
                sut.events.append(('disconnect', sid, 'LEGACY'))
                if disc_exc is not None:
                    raise disc_exc
            sut.srv.on('disconnect', legacy_disconnect)
        if 'close-packet-request-cancelled' in acts and fl == 1 and not legacy and disc_exc is None:
            # the application's disconnect handler is a coroutine that awaits (a database write, say)
            ev_log = sut.events

            async def slow_disconnect(sid_, reason):
                ev_log.append(('disconnect', sid_, reason))
                await sut.shim.sleep(1)
            sut.srv.on('disconnect', slow_disconnect)
        if msg_exc is not None:
            sut.raise_in['message'] = msg_exc
        if disc_exc is not None and not legacy:
            sut.raise_in['disconnect'] = disc_exc
        # bystander session
        sut.open('polling')
        sut.settle()
        other = sut.sids()[0]
        peer = None
        if mode == 'websocket':
            r = sut.open('websocket')
            sut.settle()
            peer = r.peer
        else:
            sut.open('polling')
            sut.settle()
        sid = sut.sids()[1]
        if mode == 'upgraded':
            u = sut.ws_upgrade(sid)
            sut.settle()
            u.peer.send('2probe')
            sut.settle()
            u.peer.send('5')
            sut.settle()
            peer = u.peer

        def inbound(text):
            if peer is not None:
                peer.send(text)
            else:
                sut.post(sid, text)
            sut.settle()
        first_end = None
        for a in acts:
            if a in ENDS and first_end is None:
                first_end = a
                log['at_end'] = len(sut.events)
            log['injected'].append(a)
            if a == 'message':
                inbound('4hello')
            elif a == 'close-packet':
                inbound('1')
            elif a == 'disconnect-sid':
                sut.app_disconnect(sid)
                sut.settle()
            elif a == 'disconnect-all':
                sut.app_disconnect()
                sut.settle()
            elif a == 'deadline-then-send':
                sut.run(until=sut.k.now + sut.srv.ping_interval + sut.srv.ping_timeout + 1)
                sut.app_send(sid, 'late')
                sut.settle()
            elif a == 'deadline-then-close-packet':
                sut.run(until=sut.k.now + sut.srv.ping_interval + sut.srv.ping_timeout + 1)
                inbound('1')
            elif a == 'ws-drop':
                peer.close()
                sut.settle()
            elif a == 'late-frame-after-close':
                peer.send('1')
                sut.settle()
                peer.send('4after-close')
                sut.settle()
            elif a == 'poll-timeout':
                # the client keeps polling but never answers the PING: once nothing is offered for
                # ping_interval + ping_timeout the poll is answered with an error and the session closed
                for _ in range(4):
                    g0 = sut.get(sid)
                    sut.run(until=sut.k.now + sut.srv.ping_interval + sut.srv.ping_timeout + 1)
                    if not g0.done or sut.status(g0) != 200:
                        break
            elif a == 'close-packet-request-cancelled':
                # the client POSTs CLOSE and drops the connection: the web server cancels the task serving that request
                # while the application's disconnect handler is still awaiting
                r_ = sut.post(sid, '1')
                sut.settle()
                if fl == 1 and not r_.done:
                    r_.task.cancel()
                    sut.settle()
                sut.run(until=sut.k.now + 2)
            elif a == 'protocol-error':
                sut.post(sid, '7')
                sut.settle()
            elif a == 'poll':
                sut.get(sid)
                sut.settle()
            elif a == 'send':
                sut.app_send(sid, 'data')
                sut.settle()
            elif a == 'post-to-other':
                sut.post(other, '4for-other')
                sut.settle()
        # afterwards: requests and frames naming the session
        log['before_after'] = len(sut.events)
        sut.post(sid, '4afterwards')
        sut.get(sid)
        if peer is not None and not peer.client_closed:
            peer.send('4afterwards-ws')
        sut.settle()
        sut.post(other, '4other-still-works')
        sut.settle()
        return sut, sid, other, first_end, log
    except BaseException:
        sut.close()
        raise


def _monitor(fl, mode, acts, msg_exc, disc_exc, legacy):
    sut, sid, other, first_end, log = _run_history(fl, mode, acts, msg_exc, disc_exc, legacy)
    try:
        st = dict(flavour=sut.flavour, mode=mode, history=repr(acts), msg_exc=type(msg_exc).__name__ if msg_exc else None,
                  disc_exc=type(disc_exc).__name__ if disc_exc else None, legacy=bool(legacy),
                  disconnect_all_hung='disconnect-all' in acts and any(blocked_in_close_join(t) for t in sut.k.blocked()))
        mine = [(k, a) for k, s, a in sut.events if s == sid]
        if not mine or mine[0][0] != 'connect' or [k for k, a in mine].count('connect') != 1:
            return fail(PROP, 'CONNECT-FIRST-ONCE', 'events %r' % (mine,), **st)
        discs = [a for k, a in mine if k == 'disconnect']
        if first_end is None:
            if discs:
                return fail(PROP, 'SPURIOUS-DISCONNECT', 'no end cause injected but %r' % (mine,), **st)
        else:
            if len(discs) != 1:
                return fail(PROP, 'DISCONNECT-ONCE', '%d disconnect events after %r: %r' % (len(discs), acts, mine), **st)
            ok_reasons = ENDS[first_end]
            if first_end in ('deadline-then-send', 'deadline-then-close-packet') and mode != 'polling':
                ok_reasons = ok_reasons + ('transport close',)      # the WebSocket read itself may time out first (C07)
            if first_end in ('deadline-then-send', 'deadline-then-close-packet') and mode == 'polling' and \
                    'poll' in acts[:acts.index(first_end)]:
                ok_reasons = ok_reasons + ('transport error',)     # a poll left pending times out at the same deadline
            if not legacy and discs[0] not in ok_reasons:
                return fail(PROP, 'DISCONNECT-REASON', 'first end cause %s, reason %r' % (first_end, discs[0]), **st)
            i = [k for k, a in mine].index('disconnect')
            if mine[i + 1:]:
                return fail(PROP, 'EVENT-AFTER-DISCONNECT', 'events %r after the disconnect event (history %r)' % (mine[i + 1:], acts), **st)
        # messages: exactly the injected ones that came before the end
        want = 0
        for a in acts:
            if a in ENDS:
                break
            if a == 'message':
                want += 1
        if first_end is None:
            want += 1 if mode == 'polling' else 2        # the trailing "afterwards" probes reach a live session
        got = len([1 for k, a in mine if k == 'message'])
        if got != want:
            return fail(PROP, 'MESSAGE-EVENTS', '%d message events, expected %d (history %r, events %r)' % (got, want, acts, mine), **st)
        # the other session is unaffected (unless disconnect-all ended it too)
        theirs = [(k, a) for k, s, a in sut.events if s == other]
        exp_other = [('connect', None)]
        for a in acts:
            if a == 'post-to-other':
                exp_other.append(('message', 'for-other'))
            if a == 'disconnect-all':
                exp_other.append(('disconnect', 'server disconnect' if not legacy else 'LEGACY'))
                break
        else:
            exp_other.append(('message', 'other-still-works'))
        if theirs != exp_other:
            return fail(PROP, 'OTHER-SESSION', 'bystander events %r, expected %r' % (theirs, exp_other), **st)
        return ''
    finally:
        sut.close()


def _sel(fl, mi, a0, a1, a2, n, me, de, legacy):
    mode = MODES[mi]
    acts = [ACTIONS[x] for x in (a0, a1, a2)[:n]]
    if any(not _applicable(a, mode) for a in acts):
        return ''
    return _monitor(fl, mode, acts, EXCS[me], EXCS[de], legacy)


@cond(quick=dict(A2=4, timeout=170, parts=dict(FL=[0, 1], MODE=[0, 1, 2])), thorough=dict(A2=12, timeout=1500, parts=dict(FL=[0, 1], MODE=[0, 1, 2])))
def histories(fl: int, mi: int, a0: int, a1: int, a2: int, n: int) -> str:
    """
    pre: fl == P.FL and mi == P.MODE and 0 <= n <= 3 and 0 <= a0 < len(ACTIONS) and 0 <= a1 < len(ACTIONS) and 0 <= a2 < len(ACTIONS)
    pre: (n >= 3 or a2 == 0) and (n >= 2 or a1 == 0) and (n >= 1 or a0 == 0) and (n < 3 or a2 <= P.A2)
    post: _ == ''
    """
    return verdict(untraced(_sel, fl, mi, a0, a1, a2, n, 0, 0, False))


@cond(quick=dict(timeout=170, parts=dict(FL=[0, 1], MODE=[0, 1, 2])), thorough=dict(timeout=900, parts=dict(FL=[0, 1], MODE=[0, 1, 2])))
def handler_exceptions(fl: int, mi: int, a0: int, a1: int, me: int, de: int, legacy: bool) -> str:
    """
    pre: fl == P.FL and mi == P.MODE and 0 <= a0 <= 4 and 0 <= a1 <= 7 and 0 <= me < len(EXCS) and 0 <= de < len(EXCS)
    pre: (me > 0 or de > 0 or legacy) and (me == 0 or de == 0 or me == de)
    post: _ == ''
    """
    # a message / disconnect handler that raises (several exception types; legacy one-argument disconnect handlers):
    # the session protocol, the cleanup and the other session are exactly as without the exception
    return verdict(untraced(_sel, fl, mi, a0, a1, 0, 2, me, de, legacy))


RACERS = ('close-packet', 'disconnect-sid', 'ws-drop', 'protocol-error', 'send-after-deadline', 'close-packet-ws-then-drop')


def _race(fl, mi, c0, c1, slow, s0, s1, s2):
    """Two end causes are injected at the same instant, WITHOUT letting the server settle in between; the first scheduling
    decisions among the ready tasks are chosen by the selectors s0..s2; optionally the disconnect handler is slow (it blocks /
    awaits for one virtual second, so the second cause is processed while the handler of the first is still running).
    Exactly one disconnect event, its reason names one of the two causes, nothing after it, bystander untouched."""
    mode = MODES[mi]
    a, b = RACERS[c0], RACERS[c1]
    for x in (a, b):
        if x in ('ws-drop', 'close-packet-ws-then-drop') and mode == 'polling':
            return ''
        if x == 'protocol-error' and mode != 'polling':
            return ''
    sut = mk(fl, async_handlers=False, monitor_clients=False)
    st = dict(flavour=sut.flavour, mode=mode, race=repr((a, b)), slow_handler=bool(slow), order=repr((s0, s1, s2)))
    try:
        if slow:
            log = sut.events
            if fl == 0:
                def slow_disconnect(sid, reason):
                    log.append(('disconnect', sid, reason))
                    sut.srv.sleep(1)
            else:
                async def slow_disconnect(sid, reason):
                    log.append(('disconnect', sid, reason))
                    await sut.shim.sleep(1)
            sut.srv.on('disconnect', slow_disconnect)
        sut.open('polling')
        sut.settle()
        other = sut.sids()[0]
        peer = None
        if mode == 'websocket':
            r = sut.open('websocket')
            sut.settle()
            peer = r.peer
        else:
            sut.open('polling')
            sut.settle()
        sid = sut.sids()[1]
        if mode == 'upgraded':
            u = sut.ws_upgrade(sid)
            sut.settle()
            u.peer.send('2probe')
            sut.settle()
            u.peer.send('5')
            sut.settle()
            peer = u.peer
        if 'send-after-deadline' in (a, b):
            sut.run(until=sut.k.now + sut.srv.ping_interval + sut.srv.ping_timeout + 1)
            if [1 for k_, s_, a_ in sut.events if k_ == 'disconnect' and s_ == sid]:
                return ''           # the deadline alone already ended it (WebSocket read timeout): no race left to look at
        api_calls = []

        def fire(x):
            if x == 'close-packet':
                if peer is not None:
                    peer.send('1')
                else:
                    sut.post(sid, '1')
            elif x == 'disconnect-sid':
                api_calls.append(sut.app_disconnect(sid))
            elif x == 'ws-drop':
                peer.close()
            elif x == 'protocol-error':
                sut.post(sid, '7')
            elif x == 'send-after-deadline':
                api_calls.append(sut.app_send(sid, 'late'))
            elif x == 'close-packet-ws-then-drop':
                peer.send('1')
                peer.close()
        sut.k.choices = [s0, s1, s2]
        fire(a)
        fire(b)
        sut.settle()
        sut.run(until=sut.k.now + 3)
        # afterwards
        sut.post(sid, '4afterwards')
        sut.get(sid)
        if peer is not None and not peer.client_closed:
            peer.send('4afterwards-ws')
        sut.settle()
        sut.post(other, '4other-still-works')
        sut.settle()
        mine = [(k_, a_) for k_, s_, a_ in sut.events if s_ == sid]
        if not mine or mine[0][0] != 'connect' or [k_ for k_, a_ in mine].count('connect') != 1:
            return fail(PROP, 'CONNECT-FIRST-ONCE', 'events %r' % (mine,), **st)
        discs = [a_ for k_, a_ in mine if k_ == 'disconnect']
        if len(discs) != 1:
            return fail(PROP, 'DISCONNECT-ONCE', '%d disconnect events when %s and %s race: %r' % (len(discs), a, b, mine), **st)
        ok = ()
        for x in (a, b):
            ok = ok + {'close-packet': ('client disconnect',), 'disconnect-sid': ('server disconnect',),
                       'ws-drop': ('transport close', 'transport error'), 'protocol-error': ('server disconnect', 'transport error'),
                       'send-after-deadline': ('ping timeout', 'transport close', 'transport error'),
                       'close-packet-ws-then-drop': ('client disconnect', 'transport close', 'transport error')}[x]
        if discs[0] not in ok:
            return fail(PROP, 'DISCONNECT-REASON', 'racing causes %s / %s, reason %r' % (a, b, discs[0]), **st)
        i = [k_ for k_, a_ in mine].index('disconnect')
        if mine[i + 1:]:
            return fail(PROP, 'EVENT-AFTER-DISCONNECT', 'events %r after the disconnect event (race %s / %s)' % (mine[i + 1:], a, b), **st)
        theirs = [(k_, a_) for k_, s_, a_ in sut.events if s_ == other]
        if theirs != [('connect', None), ('message', 'other-still-works')]:
            return fail(PROP, 'OTHER-SESSION', 'bystander events %r' % (theirs,), **st)
        return ''
    finally:
        sut.close()


@cond(quick=dict(timeout=170, parts=dict(FL=[0, 1], MODE=[0, 1, 2])), thorough=dict(timeout=900, parts=dict(FL=[0, 1], MODE=[0, 1, 2])))
def racing_ends(fl: int, mi: int, c0: int, c1: int, slow: bool, s0: int, s1: int, s2: int) -> str:
    """
    pre: fl == P.FL and mi == P.MODE and 0 <= c0 < len(RACERS) and 0 <= c1 < len(RACERS) and c0 != c1
    pre: 0 <= s0 <= 2 and 0 <= s1 <= 1 and 0 <= s2 <= 1
    post: _ == ''
    """
    return verdict(untraced(_race, fl, mi, c0, c1, slow, s0, s1, s2))


FOLLOW = ('message', 'close-packet', 'disconnect-sid', 'send', 'poll', 'protocol-error')


def _slow_handler(fl, mi, c0, f0):
    """The application's disconnect handler is slow (it blocks / awaits for a virtual second). While it is still running the
    client or the application does something else with the session. Exactly one disconnect event, nothing after it."""
    mode = MODES[mi]
    cause, follow = RACERS[c0], FOLLOW[f0]
    if cause in ('ws-drop', 'close-packet-ws-then-drop') and mode == 'polling':
        return ''
    if cause == 'protocol-error' and mode != 'polling':
        return ''
    sut = mk(fl, async_handlers=False, monitor_clients=False)
    st = dict(flavour=sut.flavour, mode=mode, cause=cause, follow=follow, slow_handler=True)
    try:
        log = sut.events
        if fl == 0:
            def slow_disconnect(sid_, reason):
                log.append(('disconnect', sid_, reason))
                sut.srv.sleep(1)
        else:
            async def slow_disconnect(sid_, reason):
                log.append(('disconnect', sid_, reason))
                await sut.shim.sleep(1)
        sut.srv.on('disconnect', slow_disconnect)
        sut.open('polling')
        sut.settle()
        other = sut.sids()[0]
        peer = None
        if mode == 'websocket':
            r = sut.open('websocket')
            sut.settle()
            peer = r.peer
        else:
            sut.open('polling')
            sut.settle()
        sid = sut.sids()[1]
        if mode == 'upgraded':
            u = sut.ws_upgrade(sid)
            sut.settle()
            u.peer.send('2probe')
            sut.settle()
            u.peer.send('5')
            sut.settle()
            peer = u.peer
        if cause == 'send-after-deadline':
            sut.run(until=sut.k.now + sut.srv.ping_interval + sut.srv.ping_timeout + 1)
            if [1 for k_, s_, a_ in sut.events if k_ == 'disconnect' and s_ == sid]:
                return ''
        if cause == 'close-packet':
            peer.send('1') if peer is not None else sut.post(sid, '1')
        elif cause == 'disconnect-sid':
            sut.app_disconnect(sid)
        elif cause == 'ws-drop':
            peer.close()
        elif cause == 'protocol-error':
            sut.post(sid, '7')
        elif cause == 'send-after-deadline':
            sut.app_send(sid, 'late')
        elif cause == 'close-packet-ws-then-drop':
            peer.send('1')
            peer.close()
        sut.settle()            # the disconnect handler has started and is now waiting
        if not [1 for k_, s_, a_ in sut.events if k_ == 'disconnect' and s_ == sid]:
            return ''
        if follow == 'message':
            if peer is not None and not peer.client_closed:
                peer.send('4during')
            sut.post(sid, '4during-post')
        elif follow == 'close-packet':
            if peer is not None and not peer.client_closed:
                peer.send('1')
            sut.post(sid, '1')
        elif follow == 'disconnect-sid':
            sut.app_disconnect(sid)
        elif follow == 'send':
            sut.app_send(sid, 'x')
        elif follow == 'poll':
            sut.get(sid)
        elif follow == 'protocol-error':
            sut.post(sid, '8')
        sut.settle()
        sut.run(until=sut.k.now + 3)
        sut.post(sid, '4afterwards')
        sut.settle()
        sut.post(other, '4other-still-works')
        sut.settle()
        mine = [(k_, a_) for k_, s_, a_ in sut.events if s_ == sid]
        if [k_ for k_, a_ in mine].count('connect') != 1 or mine[0][0] != 'connect':
            return fail(PROP, 'CONNECT-FIRST-ONCE', 'events %r' % (mine,), **st)
        discs = [a_ for k_, a_ in mine if k_ == 'disconnect']
        if len(discs) != 1:
            return fail(PROP, 'DISCONNECT-ONCE', '%d disconnect events (%s, then %s while the disconnect handler was still running): %r' % (
                len(discs), cause, follow, mine), **st)
        i = [k_ for k_, a_ in mine].index('disconnect')
        if mine[i + 1:]:
            return fail(PROP, 'EVENT-AFTER-DISCONNECT', 'events %r after the disconnect event (%s ended the session; %s arrived while the '
                        'disconnect handler was still running)' % (mine[i + 1:], cause, follow), **st)
        theirs = [(k_, a_) for k_, s_, a_ in sut.events if s_ == other]
        if theirs != [('connect', None), ('message', 'other-still-works')]:
            return fail(PROP, 'OTHER-SESSION', 'bystander events %r' % (theirs,), **st)
        return ''
    finally:
        sut.close()


@cond(quick=dict(timeout=120), thorough=dict(timeout=300))
def slow_disconnect_handler(fl: int, mi: int, c0: int, f0: int) -> str:
    """
    pre: 0 <= fl <= 1 and 0 <= mi <= 2 and 0 <= c0 < len(RACERS) and 0 <= f0 < len(FOLLOW)
    post: _ == ''
    """
    return verdict(untraced(_slow_handler, fl, mi, c0, f0))


CONNECTS = (False, 0, 'no', RuntimeError('x'), TypeError('t'))


def _rejected(fl, ci, ws, a0):
    sut = mk(fl, async_handlers=False)
    try:
        sut.connect_result = CONNECTS[ci]
        r = sut.open('websocket' if ws else 'polling')
        sut.settle()
        sut.connect_result = None
        sid = sut.sids()[0]
        st = dict(flavour=sut.flavour, outcome=repr(CONNECTS[ci]), open='websocket' if ws else 'polling')
        n0 = len(sut.events)
        act = ACTIONS[a0]
        if act == 'message':
            sut.post(sid, '4x')
        elif act == 'close-packet':
            sut.post(sid, '1')
        elif act == 'disconnect-sid':
            sut.app_disconnect(sid)
        elif act == 'disconnect-all':
            sut.app_disconnect()
        elif act == 'deadline-then-send':
            sut.run(until=sut.k.now + 100)
            sut.app_send(sid, 'x')
        else:
            sut.get(sid)
        sut.settle()
        if r.peer is not None and not r.peer.closed_by_server:
            r.peer.send('4x')
            sut.settle()
        sut.run(until=sut.k.now + 100)
        if len(sut.events) != n0:
            return fail(PROP, 'EVENT-AFTER-REJECT', 'rejected id got events %r' % (sut.events[n0:],), **st)
        return ''
    finally:
        sut.close()


@cond(quick=dict(timeout=120), thorough=dict(timeout=300))
def rejected_connect(fl: int, ci: int, ws: bool, a0: int) -> str:
    """
    pre: 0 <= fl <= 1 and 0 <= ci < len(CONNECTS) and 0 <= a0 <= 8
    post: _ == ''
    """
    return verdict(untraced(_rejected, fl, ci, ws, a0))


from vf.validate.stubs import ALL as VALIDATE  # noqa: E402  (stub-vs-real conformance, run before the obligations)
