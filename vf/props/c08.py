"""C08 Client connection lifecycle: one connect, one disconnect, clean reusable state."""
from vf.rt import P, cond, verdict, fail, untraced
from vf.simenv.kernel import Kernel
from vf.simenv.clients import ThreadedClientSut, AsyncClientSut
from vf.simenv.fakeserver import FakeServer
from vf.props.common import SIM_STUBS, SIM_OUTSIDE
from engineio import exceptions as eio_exc

PROP = 'C08'
EXPLANATION = ('The REAL Client and AsyncClient (http_session= seam, stubbed requests / websocket-client / aiohttp, kernel-backed '
               'threads, queues and asyncio shim) talk to a scripted server whose behaviour at every step is chosen by '
               'solver-enumerated selectors: handshake outcome (refuse, error status with/without JSON, garbage, non-OPEN, empty, '
               'OPEN without sid, OPEN+CLOSE, valid OPEN on polling / WebSocket / with upgrade), the cause that ends an established '
               'connection (application disconnect() incl. from inside handlers, CLOSE packet, silence, dropped connection, failed '
               'POST, error status, WebSocket close frame / EOF) and a second connect cycle.')
STUBS = SIM_STUBS + ['client side: requests.Session / websocket.create_connection / aiohttp session replaced by stubs talking to the '
                     'scripted server; Client.start_background_task/create_queue/create_event/sleep overridden with kernel-backed '
                     'equivalents; module global asyncio of async_client = shim; real aiohttp exception / WSMsgType classes']
# (second connection of the same client object: it must be connected, transmit only what the application sends, and hear the server)
OUTSIDE = SIM_OUTSIDE + ['the SIGINT registry', 'real sockets, TLS, proxies and the cookie / auth code of _connect_websocket', 'more than 2 connect cycles']
NOT_CONSTRAINED = ['an OPEN packet whose JSON lacks fields (sid, pingInterval, ...)']
ASSUMPTIONS = ['cooperative scheduling only; virtual integer time']

CONNECT = ('ok-polling', 'ok-websocket', 'ok-upgrade', 'upgrade-refused', 'upgrade-bad-pong', 'upgrade-no-pong', 'upgrade-refused-timeout',
           'upgrade-refused-oserror', 'refuse', 'status400-json',
           'status500', 'garbage', 'bad-packet', 'non-open', 'empty', 'ws-refuse', 'ws-non-open', 'open+close', 'hang', 'ws-no-open', 'ws-refuse-timeout', 'ws-refuse-oserror')
ENDS = ('client-disconnect', 'server-close-packet', 'silence', 'transport-drop', 'failed-post', 'poll-500', 'poll-garbage',
        'disconnect-in-message-handler', 'ws-close-frame', 'ws-eof', 'disconnect-in-connect-handler', 'disconnect-abort',
        'disconnect-post-in-flight')
REASON = {'client-disconnect': 'client disconnect', 'disconnect-in-message-handler': 'client disconnect', 'disconnect-abort': 'client disconnect',
          'disconnect-in-connect-handler': 'client disconnect', 'server-close-packet': 'server disconnect',
          'disconnect-post-in-flight': 'client disconnect'}
HORIZON = 3 + 2 + 5 + 6 + 3


def _mk(cfl, k, fs):
    return (ThreadedClientSut if cfl == 0 else AsyncClientSut)(k, fs)


def _configure(fs, conn):
    transports = None
    if conn == 'ok-polling':
        fs.upgrades = []
    elif conn in ('ok-websocket', 'ws-refuse', 'ws-non-open', 'ws-no-open', 'ws-refuse-timeout', 'ws-refuse-oserror'):
        transports = ['websocket']
        if conn.startswith('ws-refuse'):
            fs.ws_mode = 'refuse'
            fs.ws_refuse_kind = {'ws-refuse': 'ws', 'ws-refuse-timeout': 'timeout', 'ws-refuse-oserror': 'oserror'}[conn]
        elif conn == 'ws-non-open':
            fs.ws_mode = 'non-open'
        elif conn == 'ws-no-open':
            fs.ws_mode = 'no-open'
    elif conn.startswith('upgrade-refused'):
        # (the socket-level failure kinds apply to the threaded client; the asyncio client's library reports them as its own
        # connection error)
        fs.ws_mode = 'refuse'
        fs.ws_refuse_kind = {'upgrade-refused': 'ws', 'upgrade-refused-timeout': 'timeout', 'upgrade-refused-oserror': 'oserror'}[conn]
    elif conn == 'upgrade-bad-pong':
        fs.probe_reply = '3nope'
    elif conn == 'upgrade-no-pong':
        fs.probe_reply = '6'
    elif conn == 'ok-upgrade':
        pass
    else:
        fs.handshake = conn
    return transports


ESTABLISHED = ('ok-polling', 'ok-websocket', 'ok-upgrade', 'upgrade-refused', 'upgrade-bad-pong', 'upgrade-no-pong', 'upgrade-refused-timeout',
               'upgrade-refused-oserror')


def _expect_transport(conn):
    return 'websocket' if conn in ('ok-websocket', 'ok-upgrade') else 'polling'


def _quiet(cl, k):
    """Everything the client started has finished (so wait() returns)."""
    return [t for t in k.blocked() if t.name.startswith('client ') or 'AsyncClient' in t.name]


def _lifecycle(cfl, ci, ei, second):
    conn, end = CONNECT[ci], ENDS[ei]
    k = Kernel()
    fs = FakeServer(k)
    cl = _mk(cfl, k, fs)
    st = dict(client=cl.flavour, handshake=conn, end=end)
    try:
        transports = _configure(fs, conn)
        if end == 'disconnect-in-connect-handler':
            if cfl == 0:
                cl.in_handler['connect'] = lambda: cl.c.disconnect()
            else:
                cl.in_handler['connect'] = lambda: k.spawn_coro(cl.c.disconnect(), name='AsyncClient.disconnect from connect handler')
        h = cl.call('connect', 'http://srv.example', transports=transports)
        k.run(until=k.now + 8)
        if conn not in ESTABLISHED and conn != 'open+close':
            # ---- connect() must raise ConnectionError and leave the client disconnected and reusable
            if not h.task.done_:
                return fail(PROP, 'CONNECT-HANGS', 'connect() did not return (blocked in %s)' % h.task.what, **st)
            if not isinstance(h.exc, eio_exc.ConnectionError):
                return fail(PROP, 'CONNECT-ERROR-TYPE', 'handshake %s: connect() %s, expected ConnectionError' % (
                    conn, 'returned' if h.exc is None else 'raised %s: %s' % (type(h.exc).__name__, h.exc)), **st)
            if cl.state() != 'disconnected' or cl.c.sid is not None:
                return fail(PROP, 'FAILED-CONNECT-STATE', 'state %s sid %r after a refused connect' % (cl.state(), cl.c.sid), **st)
            if cl.events:
                return fail(PROP, 'FAILED-CONNECT-EVENTS', 'events %r' % (cl.events,), **st)
        elif conn == 'open+close':
            if not h.task.done_ or (h.exc is not None and not isinstance(h.exc, eio_exc.ConnectionError)):
                return fail(PROP, 'CONNECT-ERROR-TYPE', 'OPEN+CLOSE: done=%s exc=%r' % (h.task.done_, h.exc), **st)
            k.run(until=k.now + HORIZON)
            ev = [e[0] for e in cl.events]
            if ev.count('connect') != 1 or ev.count('disconnect') != 1 or ev[0] != 'connect':
                return fail(PROP, 'EVENT-PROTOCOL', 'OPEN followed by CLOSE: events %r' % (cl.events,), **st)
            if cl.state() != 'disconnected' or cl.c.sid is not None:
                return fail(PROP, 'DISCONNECTED-STATE', 'state %s sid %r' % (cl.state(), cl.c.sid), **st)
        else:
            if not h.task.done_ or h.exc is not None:
                return fail(PROP, 'CONNECT-FAILS', 'handshake %s: done=%s exc=%r' % (conn, h.task.done_, h.exc), **st)
            if [e for e in cl.events if e[0] == 'connect'] != [('connect', None)]:
                return fail(PROP, 'CONNECT-EVENT-ONCE', 'events %r' % (cl.events,), **st)
            if end != 'disconnect-in-connect-handler':
                if cl.c.sid != 'sid-1' or cl.c.transport() != _expect_transport(conn) or cl.c.ping_interval != 3.0 or cl.c.ping_timeout != 2.0:
                    return fail(PROP, 'ADOPTS-HANDSHAKE', 'sid %r transport %r interval %r timeout %r' % (
                        cl.c.sid, cl.c.transport(), cl.c.ping_interval, cl.c.ping_timeout), **st)
            ws = _expect_transport(conn) == 'websocket'
            # ---- end the connection
            n0 = len(cl.events)
            if end == 'client-disconnect':
                d = cl.call('disconnect')
            elif end == 'disconnect-abort':
                d = cl.call('disconnect', abort=True)
            elif end == 'disconnect-post-in-flight':
                if ws:
                    return ''
                # slow network: the POST of a send() is still unanswered when the application disconnects
                fs.post_mode = 'hold'
                cl.call('send', 'in-flight')
                k.settle()
                d = cl.call('disconnect')
                k.settle()
                fs.hold = False
                fs.post_mode = 'ok'
            elif end == 'server-close-packet':
                fs.push('1')
            elif end == 'silence':
                fs.poll_mode = 'silence'
                fs.heartbeat = False
            elif end == 'transport-drop':
                if ws:
                    fs.ws_eof()
                else:
                    fs.poll_mode = 'drop-now'
            elif end == 'failed-post':
                fs.post_mode = 'drop'
                cl.call('send', 'lost')
            elif end == 'poll-500':
                if ws:
                    return ''
                fs.poll_mode = 'status500'
                fs.push('6')
            elif end == 'poll-garbage':
                if ws:
                    fs.push('')         # an empty frame cannot be decoded
                else:
                    fs.poll_mode = 'garbage'
                    fs.push('6')
            elif end == 'disconnect-in-message-handler':
                if cfl == 0:
                    cl.in_handler['message'] = lambda: cl.c.disconnect()
                else:
                    orig = cl.c.handlers['message']

                    async def amsg(data):
                        orig(data)
                        await cl.c.disconnect()
                    cl.c.on('message', amsg)
                    cl._restore_message = orig
                fs.push('4trigger')
            elif end == 'ws-close-frame':
                if not ws:
                    return ''
                fs.ws_close_frame()
            elif end == 'ws-eof':
                if not ws:
                    return ''
                fs.ws_eof()
            k.settle()
            k.run(until=k.now + HORIZON)
            if end == 'failed-post' and not ws:
                # the write loop gave up; the connection is declared lost at the latest when the server goes quiet
                fs.poll_mode = 'silence'
                fs.heartbeat = False
                k.run(until=k.now + HORIZON)
            disc = [e for e in cl.events if e[0] == 'disconnect']
            if end == 'failed-post' and ws:
                return ''
            if len(disc) != 1:
                return fail(PROP, 'DISCONNECT-ONCE', 'end cause %s: disconnect events %r (all events %r)' % (end, disc, cl.events), **st)
            want = REASON.get(end, 'transport error')
            if disc[0][1] != want:
                return fail(PROP, 'DISCONNECT-REASON', 'end cause %s: reason %r, expected %r' % (end, disc[0][1], want), **st)
            if cl.state() != 'disconnected' or cl.c.sid is not None:
                return fail(PROP, 'DISCONNECTED-STATE', 'after %s: state %s sid %r' % (end, cl.state(), cl.c.sid), **st)
            left = _quiet(cl, k)
            if left:
                return fail(PROP, 'TASKS-FINISH', 'after %s the client still has tasks %r (wait() would not return)' % (
                    end, [(t.name, t.what) for t in left]), **st)
            w = cl.call('wait')
            k.settle()
            if not w.task.done_:
                return fail(PROP, 'WAIT-RETURNS', 'wait() blocks after the connection ended', **st)
            # nothing fires afterwards
            n1 = len(cl.events)
            fs.push('4late')
            if fs.link is not None:
                fs.link.to_client.append('4late-ws')
            k.run(until=k.now + 4)
            if len(cl.events) != n1:
                return fail(PROP, 'EVENT-AFTER-DISCONNECT', 'events %r after the disconnect' % (cl.events[n1:],), **st)
        # ---- not connected: send() and disconnect() are harmless no-ops
        nreq = len(fs.requests)
        nev = len(cl.events)
        s = cl.call('send', 'into the void')
        d2 = cl.call('disconnect')
        k.settle()
        k.run(until=k.now + 2)
        if s.exc is not None or d2.exc is not None or not s.task.done_ or not d2.task.done_:
            return fail(PROP, 'NOOP-WHEN-DISCONNECTED', 'send/disconnect on a disconnected client: %r / %r' % (s.exc, d2.exc), **st)
        if len(fs.requests) != nreq or len(cl.events) != nev or cl.state() != 'disconnected':
            return fail(PROP, 'NOOP-WHEN-DISCONNECTED', 'send/disconnect on a disconnected client caused requests %r events %r' % (
                fs.requests[nreq:], cl.events[nev:]), **st)
        # ---- connect() works again
        if second:
            fs2 = fs
            fs2.handshake, fs2.poll_mode, fs2.post_mode, fs2.ws_mode, fs2.probe_reply = 'ok', 'normal', 'ok', 'ok', '3probe'
            # second: 1 = polling, 2 = WebSocket only, 3 = polling then upgrade
            fs2.upgrades = ['websocket'] if second == 3 else []
            fs2.outbox = []
            fs2.link = None          # (the scripted server forgets the WebSocket of the first connection)
            cl.in_handler.clear()
            if getattr(cl, '_restore_message', None) is not None:
                cl.c.on('message', cl._restore_message)      # (the handler that disconnects belongs to the first connection's script)
            h2 = cl.call('connect', 'http://srv.example', transports={1: ['polling'], 2: ['websocket'], 3: None}.get(int(second), ['polling']))
            k.run(until=k.now + 2)
            st['second'] = {1: 'polling', 2: 'websocket', 3: 'upgrade'}.get(int(second), 'polling')
            if not h2.task.done_ or h2.exc is not None or cl.state() != 'connected':
                return fail(PROP, 'RECONNECT', 'second connect(): done=%s exc=%r state %s' % (h2.task.done_, h2.exc, cl.state()), **st)
            if cl.c.transport() != ('polling' if int(second) == 1 else 'websocket'):
                return fail(PROP, 'RECONNECT', 'second connect(): transport %s' % cl.c.transport(), **st)
            if [e[0] for e in cl.events[nev:]] != ['connect']:
                return fail(PROP, 'RECONNECT', 'second connect(): events %r' % (cl.events[nev:],), **st)
            # the new connection starts clean: the only thing the client transmits is what the application sends now
            nrx = len(fs.received)
            cl.call('send', 'again')
            k.settle()
            k.run(until=k.now + 1)
            rx2 = [(t, d_) for tr, t, d_ in fs.received[nrx:] if t != 3]
            if rx2 != [(4, 'again')]:
                return fail(PROP, 'RECONNECT', 'second connection: the application sent one message, the server received packets %r' % (rx2,), **st)
            if cl.state() != 'connected' or [e for e in cl.events[nev:] if e[0] == 'disconnect']:
                return fail(PROP, 'RECONNECT', 'second connection ended by itself: state %s events %r' % (cl.state(), cl.events[nev:]), **st)
            # ... and it hears the server (messages and PINGs of the new session reach it)
            fs2.push('4hello-again')
            fs2.push('2again')
            k.settle()
            k.run(until=k.now + 1)
            if [d_ for kind_, d_ in cl.events[nev:] if kind_ == 'message'] != ['hello-again']:
                return fail(PROP, 'RECONNECT', 'second connection: the server sent a message, the handler got %r' % (
                    [e for e in cl.events[nev:] if e[0] == 'message'],), **st)
            if [d_ for tr, t, d_ in fs.received[nrx:] if t == 3 and d_].count('again') != 1:
                return fail(PROP, 'RECONNECT', 'second connection: PING "again" answered with %r' % (
                    [d_ for tr, t, d_ in fs.received[nrx:] if t == 3],), **st)
            cl.call('disconnect')
            k.run(until=k.now + HORIZON)
        return ''
    finally:
        cl.close()
        k.teardown()


@cond(quick=dict(SEC=1, timeout=170, parts=dict(C=[0, 1])), thorough=dict(SEC=3, timeout=600, parts=dict(C=[0, 1])))
def lifecycle(cfl: int, ci: int, ei: int, second: int) -> str:
    """
    pre: cfl == P.C and 0 <= ci < len(CONNECT) and 0 <= ei < len(ENDS) and (ci <= 7 or ei == 0) and 0 <= second <= P.SEC
    post: _ == ''
    """
    # second: the same client object connects again afterwards (quick: over polling; thorough: also WebSocket-only and
    # polling followed by an upgrade)
    return verdict(untraced(_lifecycle, cfl, ci, ei, second))


from vf.validate.stubs import ALL as VALIDATE  # noqa: E402  (stub-vs-real conformance, run before the obligations)
