"""C02 Payload framing is separator-exact, order-preserving and bounded."""
import urllib.parse

from vf.rt import P, cond, verdict, fail, untraced
from vf.oracles.refs import ref_wire_text
from engineio import packet, payload
from engineio import json as eio_json

PROP = 'C02'
EXPLANATION = ('Unit level: Payload.encode/decode (and Packet.* underneath) on symbolic packet lists, texts, '
               'packet counts, limits and arbitrary input strings.')
STUBS = ['Packet.json seam ("never JSON": loads always raises ValueError) where symbolic text would have to cross '
         'the C json scanner; concrete table texts go through the real parser']
OUTSIDE = ['symbolic (arbitrary Unicode) characters in the packet-type position: type characters range over the adversarial alphabet table', 'more than 3 packets with symbolic content per payload (counts up to 40 use a fixed packet text)',
           'arbitrary strings longer than the stated bound for totality', 'the "longer ones at random" part of the '
           'quantifier (sampling is not this technique)', 'percent-encodings other than urllib quote/quote_plus of the body']
ASSUMPTIONS = ['urllib.parse.parse_qs/quote are library-trusted', 'Packet.encode is covered by C01']


class _NeverJson:
    @staticmethod
    def loads(s, **kw):
        raise ValueError('not json')
    dumps = staticmethod(eio_json.dumps)


def _with_never_json(fn):
    old = packet.Packet.json
    packet.Packet.json = _NeverJson
    try:
        return fn()
    finally:
        packet.Packet.json = old


# payload kinds for table-driven packets: (data, decoded-data-with-real-parser)
_TABLE = (
    ('hello', 'hello'), ('', ''), ('12', '12'), ('b', 'b'), ('{"a":[1,2]}', {'a': [1, 2]}), ({'a': 1}, {'a': 1}),
    ([1, 'x'], [1, 'x']), (b'', b''), (b'\x00\xff', b'\x00\xff'), (bytearray(b'abc'), b'abc'), ('\xe9 ', '\xe9 '),
    (None, ''), ('"q"', 'q'), ('null', None),
    # backslash-n in the wire form: text with a backslash followed by n, JSON whose string holds a newline, a doubled backslash
    # spaces, plus signs, ampersands and percent signs (what form encoding touches)
    ('a b+c&d=e%20f', 'a b+c&d=e%20f'), ({'k': 'v w+x'}, {'k': 'v w+x'}),
    ('C:\\new\\notes', 'C:\\new\\notes'), ({'t': 'line\nbreak'}, {'t': 'line\nbreak'}), ('a\\\\nb', 'a\\\\nb'),
)


def _mk(t, k, s, use_sym):
    """packet #i: symbolic text when use_sym else the table entry (binary forces MESSAGE)."""
    if use_sym:
        return packet.Packet(t, s), s
    data, dec = _TABLE[k]
    if isinstance(data, (bytes, bytearray)):
        t = packet.MESSAGE
    return packet.Packet(t, data), dec


@cond(quick=dict(S=3, timeout=170, parts=dict(KM=[0, 1, 2])), thorough=dict(S=6, timeout=1200, parts=dict(KM=[0, 1, 2])))
def join_exact(n: int, t0: int, s0: str, k1: int, t2: int, s2: str, jsonp_none: bool) -> str:
    """
    pre: 0 <= n <= 3 and 0 <= t0 <= 6 and 4 <= t2 <= 5 and 0 <= k1 < len(_TABLE) and k1 % 3 == P.KM
    pre: len(s0) <= P.S and len(s2) <= P.S
    post: _ == ''
    """
    # packet 0: symbolic type and text; packet 1: table entry (text / JSON / binary / none); packet 2: symbolic text
    specs = [(t0, 0, s0, True), (packet.MESSAGE, k1, '', False), (t2, 0, s2, True)][:n]
    pkts = [_mk(*sp)[0] for sp in specs]
    want = '\x1e'.join(ref_wire_text(p.packet_type, p.data) for p in pkts)
    pl = payload.Payload(packets=pkts)
    e = pl.encode() if jsonp_none else pl.encode(jsonp_index=None)
    if e != want:
        return verdict(fail(PROP, 'JOIN-EXACT', 'encode of %d packets = %r want %r' % (n, e, want)))
    return verdict('')


def _cmp(decoded, expected):
    if len(decoded) != len(expected):
        return 'count %d != %d' % (len(decoded), len(expected))
    for i, (d, (t, data)) in enumerate(zip(decoded, expected)):
        if d.packet_type != t or d.data != data or type(d.data) is not type(data):
            return 'packet %d: type %r data %r want %r %r' % (i, d.packet_type, d.data, t, data)
    return ''


@cond(quick=dict(S=3, timeout=150), thorough=dict(S=5, timeout=1200))
def invert_sym_text(n: int, t0: int, t1: int, t2: int, s0: str, s1: str, s2: str) -> str:
    """
    pre: 1 <= n <= 3 and 0 <= t0 <= 6 and 0 <= t1 <= 6 and 0 <= t2 <= 6
    pre: len(s0) <= P.S and len(s1) <= P.S and len(s2) <= 1
    post: _ == ''
    """
    specs = [(t0, s0), (t1, s1), (t2, s2)][:n]
    if any('\x1e' in s for _, s in specs):
        return ''                       # the statement exempts texts containing the separator
    body = payload.Payload(packets=[packet.Packet(t, s) for t, s in specs]).encode()
    try:
        dec = _with_never_json(lambda: payload.Payload(encoded_payload=body).packets)
    except Exception as e:  # noqa
        return verdict(fail(PROP, 'INVERT', 'decode of own encoding %r raised %s' % (body, type(e).__name__)))
    m = _cmp(dec, specs)
    if m:
        return verdict(fail(PROP, 'INVERT', 'body %r: %s' % (body, m)))
    return verdict('')


def _forms(body):
    return (body, 'd=' + urllib.parse.quote(body), 'd=' + urllib.parse.quote_plus(body),
            'd=' + urllib.parse.quote(body, safe='') + '&x=1')


def _decode_twice(k0, k1, form):
    """Decoding is a function of the text: what a consumer does to the packets of one decoding (here: emptying every JSON
    container it was handed) does not change what the next decoding of the same text returns."""
    made = [_mk(packet.MESSAGE, k, '', False) for k in (k0, k1)]
    expected = [(m[0].packet_type, m[1]) for m in made]
    body = payload.Payload(packets=[m[0] for m in made]).encode()
    text = _forms(body)[form]
    for rnd in range(3):
        try:
            dec = payload.Payload(encoded_payload=text).packets
        except Exception as e:  # noqa
            return fail(PROP, 'INVERT-FORM', 'decode #%d of %r raised %s: %s' % (rnd + 1, text, type(e).__name__, e))
        m = _cmp(dec, expected)
        if m:
            return fail(PROP, 'INVERT-REPEATED', 'decode #%d of the same text %r: %s' % (rnd + 1, text, m))
        for p_ in dec:
            if isinstance(p_.data, dict):
                p_.data.clear()
            elif isinstance(p_.data, list):
                del p_.data[:]
    return ''


@cond(quick=dict(timeout=60), thorough=dict(timeout=120))
def decode_twice(k0: int, k1: int, form: int) -> str:
    """
    pre: 0 <= k0 < len(_TABLE) and 0 <= k1 < len(_TABLE) and 0 <= form <= 3
    post: _ == ''
    """
    return verdict(untraced(_decode_twice, k0, k1, form))


_K1 = (0, 4, 8, 11, 13)        # second-packet subset of _TABLE: text, JSON text, binary, none, null literal
_T0 = (4, 0, 6)


@cond(quick=dict(N=2, T=1, timeout=150, parts=dict(F=[0, 1, 2, 3])),
      thorough=dict(N=3, T=3, timeout=900, parts=dict(F=[0, 1, 2, 3])))
def invert_table_forms(n: int, ti: int, k0: int, k1: int, k2: int, form: int) -> str:
    """
    pre: 1 <= n <= P.N and 0 <= ti < P.T and form == P.F
    pre: 0 <= k0 < len(_TABLE) and 0 <= k1 < len(_K1) and 0 <= k2 < 2
    post: _ == ''
    """
    # real JSON parser, real urllib; plain body and its form-encoded d= variants decode to the same packets
    specs = [(_T0[ti], k0), (packet.MESSAGE, _K1[k1]), (packet.MESSAGE, k2)][:n]
    made = [_mk(t, k, '', False) for t, k in specs]
    pkts = [m[0] for m in made]
    expected = [(p.packet_type, m[1]) for p, m in zip(pkts, made)]
    body = payload.Payload(packets=pkts).encode()
    text = _forms(body)[form]
    try:
        dec = payload.Payload(encoded_payload=text).packets
    except Exception as e:  # noqa
        return verdict(fail(PROP, 'INVERT-FORM', 'decode(%r) raised %s: %s' % (text, type(e).__name__, e)))
    m = _cmp(dec, expected)
    if m:
        return verdict(fail(PROP, 'INVERT-FORM', 'decode(%r): %s' % (text, m)))
    return verdict('')


class _Limited(payload.Payload):
    pass


@cond(quick=dict(N=20, timeout=150, parts=dict(F=[0, 1, 2, 3])), thorough=dict(N=48, timeout=900, parts=dict(F=[0, 1, 2, 3])))
def limit(n: int, lim: int, form: int, custom: bool) -> str:
    """
    pre: 1 <= n <= P.N and 1 <= lim and form == P.F
    post: _ == ''
    """
    # n packets in one body; the limit is the class default (16) or ANY configured positive integer (lim is an
    # unbounded symbolic int: for each n the solver splits on lim < n); all four wire forms of the body
    body = '\x1e'.join(['4m%d' % i for i in range(n)])
    text = _forms(body)[form]
    if custom:
        _Limited.max_decode_packets = lim
        cls, eff = _Limited, lim
    else:
        cls, eff = payload.Payload, 16
    try:
        pk = cls(encoded_payload=text).packets
    except ValueError:
        pk = None
    except Exception as e:  # noqa
        return verdict(fail(PROP, 'LIMIT', '%s raised for %d packets' % (type(e).__name__, n)))
    if n > eff:
        if pk is not None:
            return verdict(fail(PROP, 'LIMIT-REFUSE', 'body of %d packets (limit %d, form %d) decoded to %d packets' % (
                n, eff, form, len(pk))))
    else:
        if pk is None:
            return verdict(fail(PROP, 'LIMIT-ACCEPT', 'body of %d packets (limit %d, form %d) refused' % (n, eff, form)))
        if [p.data for p in pk] != ['m%d' % i for i in range(n)]:
            return verdict(fail(PROP, 'LIMIT-ORDER', 'decoded %r' % ([p.data for p in pk],)))
    return verdict('')


@cond(quick=dict(timeout=30), thorough=dict(timeout=30))
def default_limit_is_16(x: int) -> str:
    """
    pre: x == 0
    post: _ == ''
    """
    if payload.Payload.max_decode_packets != 16:
        return verdict(fail(PROP, 'LIMIT-DEFAULT', 'default per-payload limit is %r' % payload.Payload.max_decode_packets))
    return verdict('')


_ALPH = ('', '0', '4', '6', '9', 'b', '\x1e', '"', '[', '{', 'A', '=', '!', '٤', 'd=', 'd', '%1E', ' ', '4x\x1e', '\x1eb!')


_START = ('4', '0', '6', '9', 'b', '\u0664', 'x', '4"', '4{', '41', '4m\x1e4', '4m\x1eb')


class _B64Seam:
    """base64 seam of engineio.packet: b64decode yields arbitrary (symbolic) bytes or refuses."""
    def __init__(self, r, refuse):
        self.r, self.refuse = r, refuse

    def b64decode(self, x, *a, **kw):
        if self.refuse:
            import binascii
            raise binascii.Error('Incorrect padding')
        return self.r


@cond(quick=dict(S=3, timeout=150), thorough=dict(S=6, timeout=1200))
def totality_tail(k: int, tail: str, r: bytes, refuse: bool) -> str:
    """
    pre: 0 <= k < len(_START) and len(tail) <= P.S and len(r) <= 1
    post: _ == ''
    """
    # a (valid or invalid) packet start from the table followed by an arbitrary Unicode payload tail: decode
    # returns packets or raises an Exception. The first character of every packet comes from the table:
    # CrossHair models int(str) and the C base64 decoder by enumerating concrete values one per path, so a
    # symbolic type character cannot be exhausted (stated bound); base64 content is abstracted by the seam.
    if '\x1e' in tail:
        return ''
    old = packet.base64
    packet.base64 = _B64Seam(r, refuse)
    try:
        return verdict(_total(_START[k] + tail, True))
    finally:
        packet.base64 = old


def _total(s, seam):
    try:
        if seam:
            pl = _with_never_json(lambda: payload.Payload(encoded_payload=s))
        else:
            pl = payload.Payload(encoded_payload=s)
    except Exception:  # noqa
        return ''
    pk = pl.packets
    if not isinstance(pk, list):
        return fail(PROP, 'TOTAL', 'packets is %r' % (pk,))
    for p in pk:
        if p.binary and p.packet_type != packet.MESSAGE:
            return fail(PROP, 'TOTAL', 'binary non-message from %r' % (s,))
    if s and not s.startswith('d=') and len(pk) != s.count('\x1e') + 1:
        return fail(PROP, 'SEPARATOR-EXACT', '%r decoded to %d packets' % (s, len(pk)))
    return ''


@cond(quick=dict(G=8, timeout=150, parts=dict(R=list(range(8)))), thorough=dict(G=20, timeout=600, parts=dict(R=list(range(20)))))
def totality_table(a: int, b: int, c: int) -> str:
    """
    pre: 0 <= a < len(_ALPH) and a % P.G == P.R and 0 <= b < len(_ALPH) and 0 <= c < len(_ALPH)
    post: _ == ''
    """
    # the same alphabet through the REAL json parser (all-concrete texts chosen by symbolic indexes)
    return verdict(_total(_ALPH[a] + _ALPH[b] + _ALPH[c], False))


_BAD = ('', 'x', '½', 'bA', 'bA=', 'bAAAAA', ' 4', '-1')


@cond(quick=dict(S=2, timeout=150), thorough=dict(S=4, timeout=900))
def all_or_nothing(pos: int, n: int, bad: int, s: str) -> str:
    """
    pre: 0 <= pos <= n and 0 <= n <= 3 and 0 <= bad < len(_BAD) and len(s) <= P.S
    post: _ == ''
    """
    # one undecodable packet at any position of an otherwise valid body: the constructor raises, so the caller
    # gets no packet of that body at all
    good = ['4' + s] + ['4m%d' % i for i in range(n)]
    if '\x1e' in s:
        return ''
    parts = good[:pos] + [_BAD[bad]] + good[pos:]
    body = '\x1e'.join(parts)
    got = None
    try:
        got = _with_never_json(lambda: payload.Payload(encoded_payload=body))
    except Exception:  # noqa
        return verdict('')
    return verdict(fail(PROP, 'ALL-OR-NOTHING', 'body %r with undecodable packet %r yielded %d packets' % (
        body, _BAD[bad], len(got.packets))))


@cond(quick=dict(timeout=120), thorough=dict(timeout=300))
def server_all_or_nothing(fl: int, pos: int, bad: int, form: bool) -> str:
    """
    pre: 0 <= fl <= 1 and 0 <= pos <= 3 and 0 <= bad < len(_BAD)
    post: _ == ''
    """
    # the same clause observed where it matters: a POST whose body has one undecodable packet fires no message event at all
    from vf.rt import untraced
    return verdict(untraced(_server_aon, fl, pos, bad, form))


def _server_aon(fl, pos, bad, form):
    from vf.props.common import mk
    sut = mk(fl, async_handlers=False)
    try:
        sut.open('polling')
        sut.settle()
        sid = sut.sids()[0]
        good = ['4m%d' % i for i in range(3)]
        parts = good[:pos] + [_BAD[bad]] + good[pos:]
        body = '\x1e'.join(parts)
        n0 = len(sut.events)
        if form:
            r = sut.post(sid, 'd=' + urllib.parse.quote(body), extra='&j=0')
        else:
            r = sut.post(sid, body)
        sut.settle()
        ev = [a for k, s, a in sut.events[n0:] if k == 'message']
        if ev:
            return fail(PROP, 'ALL-OR-NOTHING', 'POST body %r with undecodable packet %r fired message events %r' % (body, _BAD[bad], ev),
                        flavour=sut.flavour)
        return ''
    finally:
        sut.close()
