"""C17 Session ids are unique, URL-safe and unguessable - direct z3 bit-vector queries over an encoding generated
from the AST of BaseServer.generate_id (CrossHair cannot push 15 symbolic bytes through the C base64 encoder)."""
import ast
import inspect
import os
import random
import re
import subprocess
import tempfile
import textwrap
import time
import types

import z3

from vf.z3k import genid
from engineio import base_server

PROP = 'C17'
EXPLANATION = ('C17 is decided by z3 over bit-vectors, complete over the finite domain (96+ random bits, 24-bit counter): '
               'the encoding is produced by walking the current AST of BaseServer.generate_id; each query asserts the '
               'negated clause and must come back unsat; a sat answer is turned into concrete (random bytes, counter) '
               'values and replayed against the real method.')
STUBS = ['secrets.token_bytes(n) = a fresh 8n-bit variable (any value whatever the random source returns)',
         'base64.b64encode = 6-bit-group -> alphabet ite table (validated against the library on every run)',
         'int.to_bytes(n, order) = byte extraction with the no-overflow side condition proved separately']
OUTSIDE = ['quality of the operating system CSPRNG behind secrets.token_bytes (trusted)',
           'ids of different server instances colliding (the property speaks of one server)']
ASSUMPTIONS = ['secrets.token_bytes is the OS cryptographic random source',
               'the counter invariant 0 <= sequence_number < 2**24 holds initially (checked on the class attribute) and is '
               'preserved (query c1)']

M = 1 << 24
URLSAFE = re.compile(r'^[A-Za-z0-9_-]*$')

from vf.rt import P, cond, verdict, fail, untraced  # noqa: E402

STARTS = (0, 1, M - 700, M - 1, 12345, M // 2)
PATTERNS = ('zeros', 'ones', 'counter', 'repeat-3', 'last-bit-toggles', 'be-call-counter', 'le-call-counter')
K = 1400


def _new_server():
    """A real server object built by its public constructor (so that whatever state generate_id relies on exists)."""
    import engineio
    from vf.simenv.kernel import NullLogger
    return engineio.Server(async_mode='threading', monitor_clients=False, logger=NullLogger())


class _PatternSecrets:
    """Random source for the bounded-history condition: constant, repeating or counting output."""
    def __init__(self, kind):
        self.kind, self.n = kind, 0

    def token_bytes(self, n=32):
        self.n += 1
        if self.kind == 'zeros':
            return b'\x00' * n
        if self.kind == 'ones':
            return b'\xff' * n
        if self.kind == 'repeat-3':
            return bytes([(self.n % 3) * 85]) * n
        if self.kind == 'last-bit-toggles':
            return b'\x5a' * (n - 1) + bytes([0x5a ^ (self.n & 1)])
        if self.kind == 'be-call-counter':
            return (self.n - 1).to_bytes(n, 'big')
        if self.kind == 'le-call-counter':
            return (self.n - 1).to_bytes(n, 'little')
        return bytes((self.n * 7 + i) % 256 for i in range(n))

    def token_urlsafe(self, n=32):
        import base64
        return base64.urlsafe_b64encode(self.token_bytes(n)).rstrip(b'=').decode('ascii')

    def token_hex(self, n=32):
        return self.token_bytes(n).hex()


def _history(si, pi):
    """K consecutive issues of ONE server object starting at a chosen counter value, run on the real method: every id is
    20 URL-safe characters and no two are equal, whatever the (constant / repeating) random source returns."""
    obj = _new_server()
    obj.sequence_number = STARTS[si]
    old = base_server.secrets
    base_server.secrets = _PatternSecrets(PATTERNS[pi])
    try:
        seen = {}
        for i in range(K):
            try:
                sid = obj.generate_id()
            except Exception as e:  # noqa
                return fail(PROP, 'ID-RAISES', 'issue #%d from counter %d: %s: %s' % (i, STARTS[si], type(e).__name__, e))
            if not isinstance(sid, str) or len(sid) != 20 or not URLSAFE.match(sid):
                return fail(PROP, 'ID-FORM', 'issue #%d from counter %d (random source %s): id %r is not 20 characters over [A-Za-z0-9_-]' % (
                    i, STARTS[si], PATTERNS[pi], sid))
            if sid in seen:
                return fail(PROP, 'ID-DUPLICATE', 'issues #%d and #%d from counter %d (random source %s) are both %r' % (
                    seen[sid], i, STARTS[si], PATTERNS[pi], sid))
            seen[sid] = i
        return ''
    finally:
        base_server.secrets = old


@cond(quick=dict(timeout=120), thorough=dict(timeout=300))
def consecutive_issues(si: int, pi: int) -> str:
    """
    pre: 0 <= si < len(STARTS) and 0 <= pi < len(PATTERNS)
    post: _ == ''
    """
    # bounded-history companion of the per-call bit-vector queries: it still runs when an edit makes generate_id
    # use state or helpers the AST translator does not support (the queries then report "encoding unsupported")
    return verdict(untraced(_history, si, pi))


LIFECYCLE = ('none', 'shutdown', 'disconnect-all', 'rejected-connect', 'close-packet', 'shutdown-twice', 'clock-advance')


def _server_ids(fl, op, n1, n2, ws):
    """Ids as a CLIENT sees them (sid of the OPEN packet) over a bounded life of ONE real server object in SimEnv, the random
    source being constant: n1 opens, one lifecycle operation of the public API, n2 more opens - no id repeats, each is 20
    URL-safe characters. (The per-call z3 queries say what generate_id does to the counter; this condition is the frame
    part: nothing else in the server's life moves the counter backwards.)"""
    import json as _json
    from vf.props.common import mk
    sut = mk(fl, async_handlers=False, monitor_clients=True)
    st = dict(flavour=sut.flavour, op=LIFECYCLE[op])
    try:
        issued = []

        def open_n(n):
            for _ in range(n):
                r = sut.open('websocket' if ws else 'polling')
                sut.settle()
                if ws:
                    first = r.peer.frames[0] if r.peer.frames else ''
                else:
                    first = sut.body(r).decode('utf-8').split('\x1e')[0] if r.done and sut.status(r) == 200 else ''
                if first[:1] == '0':
                    issued.append(_json.loads(first[1:])['sid'])
        open_n(n1)
        name = LIFECYCLE[op]
        if name in ('shutdown', 'shutdown-twice'):
            for _ in range(2 if name == 'shutdown-twice' else 1):
                sut.api('shutdown')
                sut.settle()
                sut.run(until=sut.k.now + 2)
        elif name == 'disconnect-all':
            sut.app_disconnect()
            sut.settle()
        elif name == 'rejected-connect':
            sut.connect_result = False
            sut.open('polling')
            sut.settle()
            sut.connect_result = None
        elif name == 'close-packet':
            if issued and not ws:
                sut.post(issued[0], '1')
                sut.settle()
        elif name == 'clock-advance':
            sut.run(until=sut.k.now + 120)
        open_n(n2)
        # every id the server ISSUED (also to a connection its application then rejected): what the connect handler was given
        handed = [sid_ for kind_, sid_, _ in sut.events if kind_ == 'connect']
        for i, sid_ in enumerate(handed):
            if sid_ in handed[:i]:
                return fail(PROP, 'ID-DUPLICATE', 'connections #%d and #%d of one server (operation %r after the first %d opens, constant '
                            'random source) were both given the id %r' % (handed.index(sid_), i, name, n1, sid_), **st)
        if len(issued) != n1 + n2:
            return fail(PROP, 'ID-OPEN-FAILS', '%d of %d opens answered with an OPEN packet' % (len(issued), n1 + n2), **st)
        for i, sid in enumerate(issued):
            if not isinstance(sid, str) or len(sid) != 20 or not URLSAFE.match(sid):
                return fail(PROP, 'ID-FORM', 'open #%d: id %r is not 20 characters over [A-Za-z0-9_-]' % (i, sid), **st)
            if sid in issued[:i]:
                return fail(PROP, 'ID-DUPLICATE', 'opens #%d and #%d of one server (operation %r after the first %d opens, constant random '
                            'source) were both issued %r' % (issued.index(sid), i, name, n1, sid), **st)
        return ''
    finally:
        sut.close()


@cond(quick=dict(timeout=120), thorough=dict(timeout=300))
def server_lifecycle_ids(fl: int, op: int, n1: int, n2: int, ws: bool) -> str:
    """
    pre: 0 <= fl <= 1 and 0 <= op < len(LIFECYCLE) and 0 <= n1 <= 3 and 1 <= n2 <= 3
    post: _ == ''
    """
    return verdict(untraced(_server_ids, fl, op, n1, n2, ws))


def _in_charset(c):
    return z3.Or(z3.And(z3.UGE(c, ord('A')), z3.ULE(c, ord('Z'))), z3.And(z3.UGE(c, ord('a')), z3.ULE(c, ord('z'))),
                 z3.And(z3.UGE(c, ord('0')), z3.ULE(c, ord('9'))), c == ord('_'), c == ord('-'))


def _inv(seq):
    return z3.ULT(seq, z3.BitVecVal(M, genid.W))


class _Secrets:
    def __init__(self, values):
        self.values = list(values)

    def token_bytes(self, n=None):
        v = self.values.pop(0)
        assert len(v) == n, 'random call size changed between encoding and replay'
        return v

    def token_urlsafe(self, n=None):
        import base64
        return base64.urlsafe_b64encode(self.token_bytes(n)).rstrip(b'=').decode('ascii')

    def token_hex(self, n=None):
        return self.token_bytes(n).hex()


def real_generate(rnd_values, seq):
    """Run the REAL method with the random source pinned to rnd_values and the counter at seq."""
    obj = _new_server()
    obj.sequence_number = seq
    old = base_server.secrets
    base_server.secrets = _Secrets(rnd_values)
    try:
        sid = obj.generate_id()
    finally:
        base_server.secrets = old
    return sid, obj.sequence_number


def _model_values(model, enc):
    rnds = []
    for _, nb, var in enc.random_calls:
        v = model.eval(var, model_completion=True).as_long()
        rnds.append(v.to_bytes(nb, 'big'))
    seq = model.eval(enc.seq_in, model_completion=True).as_long()
    return rnds, seq


def _run_query(name, constraints, timeout_ms=120000):
    s = z3.Solver()
    s.set('timeout', timeout_ms)
    s.add(*constraints)
    t = time.perf_counter()
    r = s.check()
    return s, str(r), time.perf_counter() - t


def _cvc5(smt2, timeout=120):
    with tempfile.NamedTemporaryFile('w', suffix='.smt2', delete=False) as f:
        f.write('(set-logic ALL)\n' + smt2 + '\n(check-sat)\n')
        path = f.name
    try:
        p = subprocess.run(['cvc5', '--tlimit=%d' % (timeout * 1000), path], capture_output=True, text=True,
                           timeout=timeout + 10)
        out = (p.stdout + p.stderr).strip().splitlines()
        if any('(error' in l for l in out):
            return 'error'
        return out[0].strip() if out else 'no-output'
    except Exception as e:  # noqa
        return 'failed: %s' % e
    finally:
        os.unlink(path)


def EXTRA(tier):
    results = []
    fn = base_server.BaseServer.generate_id
    fnames = ['engineio.base_server.BaseServer.generate_id']

    def res(name, state, **kw):
        d = {'name': name, 'state': state, 'functions': fnames, 'kind': 'z3 bit-vector query (unsat = holds)'}
        d.update(kw)
        results.append(d)

    try:
        e1 = genid.translate(fn, '1', base_server.BaseServer)
        e2 = genid.translate(fn, '2', base_server.BaseServer)
    except genid.Unsupported as u:
        for n in ('a_charset_length', 'b_counter_injective', 'c_counter_step', 'd_random_bits'):
            res(n, 'inconclusive', reason='encoding unsupported: %s' % u)
        return results

    # ---- translation validation on concrete (random, counter) pairs against the real method
    rng = random.Random(int(os.environ.get('VERIF_SEED', '0') or 0))
    pairs = [([b'\x00' * nb for _, nb, _ in e1.random_calls], 0), ([b'\xff' * nb for _, nb, _ in e1.random_calls], M - 1),
             ([b'\xfb\xef\xbe' * (nb // 3) + b'\x3e' * (nb % 3) for _, nb, _ in e1.random_calls], 0x3e3f3f)]
    for _ in range(256):
        pairs.append(([bytes(rng.getrandbits(8) for _ in range(nb)) for _, nb, _ in e1.random_calls], rng.randrange(M)))
    bad = None
    for rnds, seq in pairs:
        try:
            want = real_generate(rnds, seq)
        except Exception as ex:  # noqa
            bad = 'real generate_id raised %s for counter %d' % (type(ex).__name__, seq)
            break
        got = genid.evaluate(e1, rnds, seq)
        if got != want:
            bad = 'encoding %r != real %r for rnd=%r seq=%d' % (got, want, rnds, seq)
            break
    if bad:
        res('translation_validation', 'harness_error', reason=bad)
        return results
    res('translation_validation', 'confirmed', bound=['%d concrete (random bytes, counter) pairs incl. corner values' % len(pairs)],
        sample={'rnd': pairs[3][0][0].hex(), 'seq': pairs[3][1], 'id': genid.evaluate(e1, *pairs[3])[0]},
        kind='encoding vs real method, concrete')

    queries = []   # (name, bound text, constraints, replay fn)
    id1, id2 = e1.ret.cs, e2.ret.cs
    fits1 = getattr(e1, 'fits', [])

    def cex_a(model):
        rnds, seq = _model_values(model, e1)
        try:
            sid, _ = real_generate(rnds, seq)
        except Exception as ex:  # noqa
            return 'generate_id raised %s: %s with counter %d' % (type(ex).__name__, ex, seq), {'rnd': [r.hex() for r in rnds], 'seq': seq}
        if len(sid) != 20 or not URLSAFE.match(sid):
            return 'id %r is not 20 characters over [A-Za-z0-9_-]' % sid, {'rnd': [r.hex() for r in rnds], 'seq': seq}
        return None, None

    length_ok = len(id1) == 20
    queries.append(('a_charset_length', 'all random values, all counters in [0, 2^24): 20 chars, each in [A-Za-z0-9_-], no OverflowError',
                    [_inv(e1.seq_in), z3.Not(z3.And(z3.BoolVal(length_ok), *[_in_charset(c) for c in id1], *fits1))], cex_a))

    def cex_b(model):
        r1, s1 = _model_values(model, e1)
        r2, s2 = _model_values(model, e2)
        a, b = real_generate(r1, s1)[0], real_generate(r2, s2)[0]
        if a == b and s1 != s2:
            return 'counters %d and %d give the same id %r' % (s1, s2, a), {'rnd1': [r.hex() for r in r1], 'seq1': s1,
                                                                          'rnd2': [r.hex() for r in r2], 'seq2': s2}
        return None, None

    same = z3.And(*[a == b for a, b in zip(id1, id2)]) if len(id1) == len(id2) else z3.BoolVal(False)
    queries.append(('b_counter_injective', 'any two random values, any two DIFFERENT counters in [0, 2^24): ids differ',
                    [_inv(e1.seq_in), _inv(e2.seq_in), e1.seq_in != e2.seq_in, same], cex_b))

    def cex_c(model):
        rnds, seq = _model_values(model, e1)
        _, nxt = real_generate(rnds, seq)
        if nxt != (seq + 1) % M or not 0 <= nxt < M:
            return 'counter %d is followed by %d, not (counter+1) mod 2^24' % (seq, nxt), {'seq': seq}
        return None, None

    queries.append(('c1_counter_invariant', 'counter in [0, 2^24) => next counter in [0, 2^24)',
                    [_inv(e1.seq_in), z3.Not(_inv(e1.seq_out))], cex_c))
    queries.append(('c2_counter_step', 'counter in [0, 2^24) => next counter == (counter + 1) mod 2^24',
                    [_inv(e1.seq_in), e1.seq_out != z3.URem(e1.seq_in + 1, z3.BitVecVal(M, genid.W))], cex_c))
    s, i, j = z3.Ints('s i j')
    queries.append(('c3_window_distinct', 'integers: 0<=s<2^24, 0<=i<j<i+2^24 => (s+i) mod 2^24 != (s+j) mod 2^24 '
                    '(with b, c1, c2: no two of any 2^24 consecutive ids are equal, by induction on the number of issues)',
                    [s >= 0, s < M, i >= 0, j > i, j < i + M, (s + i) % M == (s + j) % M], None))

    def cex_d(model):
        r1, s1 = _model_values(model, e1)
        r2, s2 = _model_values(model, e2)
        a, b = real_generate(r1, s1)[0], real_generate(r2, s1)[0]
        if a == b and r1 != r2:
            return 'random values %r and %r give the same id %r' % (r1, r2, a), {'rnd1': [r.hex() for r in r1],
                                                                                'rnd2': [r.hex() for r in r2], 'seq': s1}
        return None, None

    rbits = sum(8 * nb for _, nb, _ in e1.random_calls)
    if e1.random_calls:
        rnd_differs = z3.Or(*[v1 != v2 for (_, _, v1), (_, _, v2) in zip(e1.random_calls, e2.random_calls)])
        queries.append(('d_random_bits_embedded', 'same counter, any two DIFFERENT random values: ids differ (every random bit is in the id)',
                        [_inv(e1.seq_in), e1.seq_in == e2.seq_in, rnd_differs, same], cex_d))

    for name, bound, cons, cex in queries:
        solver, r, dt = _run_query(name, cons)
        rec = dict(bound=[bound], smt_queries=1, solver_s=round(dt, 3), sample={'query': name, 'result': r, 'solver_s': round(dt, 3)})
        if r == 'unsat':
            state = 'confirmed'
            if tier == 'thorough':
                c = _cvc5(solver.to_smt2().replace('(check-sat)', ''))
                rec['sample']['cvc5'] = c
                if c == 'sat':
                    state = 'harness_error'
                    rec['reason'] = 'z3 says unsat, cvc5 says sat'
            res(name, state, **rec)
        elif r == 'sat':
            clause, wit = (cex(solver.model()) if cex else ('arithmetic lemma refuted', str(solver.model())))
            if clause:
                res(name, 'violated', clause=clause, witness=wit, **rec)
            else:
                res(name, 'harness_error', reason='z3 model does not reproduce on the real method', **rec)
        else:
            res(name, 'inconclusive', reason='z3 answered %s after %.0fs' % (r, dt), **rec)

    # ---- facts read from the AST / class (not solver queries; reported as their own obligations)
    init = base_server.BaseServer.sequence_number
    if isinstance(init, int) and 0 <= init < M:
        res('c0_counter_initial', 'confirmed', bound=['class attribute sequence_number = %r is in [0, 2^24)' % init],
            sample={'initial': init}, kind='read from the class')
    else:
        res('c0_counter_initial', 'violated', clause='initial counter %r outside [0, 2^24)' % (init,), witness={'initial': init})
    srcs = [q for q, _, _ in e1.random_calls]
    if rbits >= 96 and all(q in ('secrets.token_bytes', 'secrets.token_urlsafe', 'secrets.token_hex') for q in srcs):
        res('d0_random_source', 'confirmed', bound=['AST: random calls = %r, %d bits in total, all from the secrets module (the OS cryptographic source)' % (srcs, rbits)],
            sample={'random_calls': srcs, 'bits': rbits}, kind='read from the AST')
    else:
        res('d0_random_source', 'violated', clause='id embeds only %d random bits from %r (needs >= 96 from the secrets module)' % (rbits, srcs),
            witness={'random_calls': srcs, 'bits': rbits})
    return results


from vf.props.common import SIM_STUBS  # noqa: E402
from vf.validate.stubs import ALL as VALIDATE  # noqa: E402,F401  (server_lifecycle_ids runs the real servers inside SimEnv)
STUBS = STUBS + ['server_lifecycle_ids only: ' + x for x in SIM_STUBS]
OUTSIDE = OUTSIDE + ['server_lifecycle_ids: more than 3 + 3 opens, lifecycle operations outside the table '
                     '(shutdown, disconnect(), rejected connect, CLOSE packet, clock advance)']
