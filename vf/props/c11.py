"""C11 OPEN handshake reflects configuration and honours the connect handler."""
import json
from fractions import Fraction

from vf.rt import P, cond, verdict, fail, untraced
from vf.oracles.js import parse_jsonp, JsError
from vf.props.common import mk, packets_of, WsPeer, SIM_STUBS, SIM_OUTSIDE
from vf.oracles.wire import split_payload, decode_packet

PROP = 'C11'
EXPLANATION = ('Whole-server level: symbolic integer ping_interval / grace / ping_timeout (bounded, they are rendered in decimal), '
               'fractional settings from a table compared in exact rationals, symbolic selectors for max_http_buffer_size, '
               'allow_upgrades, transports, WebSocket availability, request transport, cookie forms, connect-handler outcomes and '
               'JSONP; the advertised upgrade is tested by actually attempting it in the same run.')
STUBS = SIM_STUBS
OUTSIDE = SIM_OUTSIDE + ['integer settings above the stated bound', 'fractional settings outside the table (IEEE rounding of x*1000 is outside the claim)',
                         'cookie attribute values outside the table']
NOT_CONSTRAINED = ['whether "websocket" MUST be advertised when an upgrade would be accepted (the statement is one-directional)']
ASSUMPTIONS = ['cooperative scheduling only']


def _exact(x):
    """The configured number as an exact rational (decimal reading of a float; ints as they are)."""
    if isinstance(x, int):
        return Fraction(x, 1)
    return Fraction(str(x))


def _first_packets(sut, r, jsonp):
    text = sut.body(r).decode('utf-8')
    if jsonp:
        _, text = parse_jsonp(text)
    return split_payload(text)


def _open_numbers(fl, pi, grace, pt, M, use_tuple, jsonp, ws, greet=False):
    cfg = dict(ping_interval=(pi, grace) if use_tuple else pi, ping_timeout=pt, max_http_buffer_size=M)
    if not use_tuple:
        grace = 0
    sut = mk(fl, async_handlers=False, **cfg)
    try:
        if greet:
            # the application greets the new client from its connect handler (and accepts): OPEN must still come first
            base = sut.srv.handlers['connect']
            if fl == 0:
                def connect(sid, environ):
                    sut.srv.send(sid, 'welcome')
                    return base(sid, environ)
            else:
                async def connect(sid, environ):
                    await sut.srv.send(sid, 'welcome')
                    return base(sid, environ)
            sut.srv.on('connect', connect)
        if ws:
            r = sut.open('websocket')
            sut.settle()
            if not r.peer.frames:
                return fail(PROP, 'OPEN-FIRST', 'no frame on a websocket open', flavour=sut.flavour)
            pk = [decode_packet(r.peer.frames[0])]
        else:
            r = sut.open('polling', extra='&j=3' if jsonp else '')
            sut.settle()
            if sut.status(r) != 200:
                return fail(PROP, 'OPEN-STATUS', 'open answered %r' % sut.status(r), flavour=sut.flavour)
            try:
                pk = _first_packets(sut, r, jsonp)
            except JsError as e:
                return fail(PROP, 'OPEN-FIRST', 'JSONP body: %s' % e, flavour=sut.flavour)
        st = dict(flavour=sut.flavour, transport='websocket' if ws else 'polling')
        if not pk or pk[0][0] != 0:
            return fail(PROP, 'OPEN-FIRST', 'first packet is %r' % (pk[:1],), **st)
        info = json.loads(pk[0][1])
        sids = sut.sids()
        if len(sids) != 1 or len(sut.live_sids()) != 1:
            return fail(PROP, 'ONE-SESSION', '%d connect events / %d sessions' % (len(sids), len(sut.live_sids())), **st)
        if info.get('sid') != sids[0]:
            return fail(PROP, 'OPEN-SID', 'OPEN sid %r, handler got %r' % (info.get('sid'), sids[0]), **st)
        want_i = (_exact(pi) + _exact(grace)) * 1000
        want_t = _exact(pt) * 1000
        if Fraction(info.get('pingInterval')) != want_i:
            return fail(PROP, 'OPEN-PING-INTERVAL', 'ping_interval=%r grace=%r -> pingInterval %r, expected %s' % (
                pi, grace, info.get('pingInterval'), want_i), **st)
        if Fraction(info.get('pingTimeout')) != want_t:
            return fail(PROP, 'OPEN-PING-TIMEOUT', 'ping_timeout=%r -> pingTimeout %r, expected %s' % (pt, info.get('pingTimeout'), want_t), **st)
        if info.get('maxPayload') != M:
            return fail(PROP, 'OPEN-MAX-PAYLOAD', 'max_http_buffer_size=%r -> maxPayload %r' % (M, info.get('maxPayload')), **st)
        return ''
    finally:
        sut.close()


MS = (1, 1000000, 4096)


@cond(quick=dict(MAXI=5, timeout=170, parts=dict(FL=[0, 1])), thorough=dict(MAXI=12, timeout=1200, parts=dict(FL=[0, 1], TU=[0, 1])))
def open_numbers_int(fl: int, pi: int, grace: int, pt: int, mi: int, use_tuple: bool, jsonp: bool, ws: bool) -> str:
    """
    pre: fl == P.FL and 1 <= pi <= P.MAXI and 0 <= grace <= 3 and 1 <= pt <= P.MAXI and 0 <= mi < len(MS)
    pre: (use_tuple or grace == 0) and not (jsonp and ws) and (not hasattr(P, 'TU') or use_tuple == bool(P.TU))
    pre: (mi == 0 or (pt == 1 and not jsonp and not ws))
    post: _ == ''
    """
    return verdict(_open_numbers(fl, pi, grace, pt, MS[mi], use_tuple, jsonp, ws))


FRACS = ((0.5, 0, 0.5), (2.5, 0, 1.5), (1.25, 0, 0.25), (2.5, 0.5, 20), (3, 0.25, 0.75), (0.1, 0.2, 0.5), (25, 5, 20), (0.75, 0.75, 0.75))


@cond(quick=dict(timeout=120), thorough=dict(timeout=300))
def open_numbers_fractional(fl: int, k: int, jsonp: bool) -> str:
    """
    pre: 0 <= fl <= 1 and 0 <= k < len(FRACS)
    post: _ == ''
    """
    return verdict(untraced(_frac, fl, k, jsonp))


def _frac(fl, k, jsonp):
    pi, g, pt = FRACS[k]
    return _open_numbers(fl, pi, g, pt, 1000000, g != 0, jsonp, False)


def _greet(fl, jsonp, ws):
    return _open_numbers(fl, 25, 0, 20, 1000000, False, jsonp, ws, greet=True)


@cond(quick=dict(timeout=60), thorough=dict(timeout=120))
def open_first_with_greeting(fl: int, jsonp: bool, ws: bool) -> str:
    """
    pre: 0 <= fl <= 1 and not (jsonp and ws)
    post: _ == ''
    """
    return verdict(untraced(_greet, fl, jsonp, ws))


TCFG = (None, ['polling'], ['websocket'], ['polling', 'websocket'], 'polling')


def _upgrades(fl, allow, ti, ws_avail, req_ws):
    cfg = dict(allow_upgrades=bool(allow))
    if TCFG[ti] is not None:
        cfg['transports'] = TCFG[ti]
    sut = mk(fl, async_handlers=False, **cfg)
    try:
        if not ws_avail:
            sut.srv._async['websocket'] = None      # "WebSocket enabled but not available" (no compatible driver installed)
        allowed = TCFG[ti] or ['polling', 'websocket']
        if isinstance(allowed, str):
            allowed = [allowed]
        tr = 'websocket' if req_ws else 'polling'
        r = sut.open(tr)
        sut.settle()
        st = dict(flavour=sut.flavour, allow_upgrades=bool(allow), transports=str(TCFG[ti]), ws_available=bool(ws_avail), open=tr)
        if tr not in allowed:
            if sut.sids():
                return fail(PROP, 'OPEN-DISALLOWED-TRANSPORT', 'open on %s created a session' % tr, **st)
            return ''
        if req_ws:
            if not ws_avail:
                return ''
            if not r.peer.frames:
                return fail(PROP, 'OPEN-FIRST', 'no OPEN frame', **st)
            info = json.loads(decode_packet(r.peer.frames[0])[1])
            if 'websocket' in info.get('upgrades', []):
                return fail(PROP, 'UPGRADES-OVERADVERTISED', 'a WebSocket connection is told it can upgrade to websocket', **st)
            return ''
        if sut.status(r) != 200:
            return fail(PROP, 'OPEN-STATUS', 'open answered %r' % sut.status(r), **st)
        pk = packets_of(sut, r)
        info = json.loads(pk[0][1])
        sid = sut.sids()[0]
        if 'websocket' in info.get('upgrades', []):
            # the advertised upgrade must actually be accepted
            u = sut.ws_upgrade(sid)
            sut.settle()
            u.peer.send('2probe')
            sut.settle()
            u.peer.send('5')
            sut.settle()
            ok = False
            try:
                ok = sut.transport(sid) == 'websocket'
            except KeyError:
                pass
            if not ok:
                return fail(PROP, 'UPGRADES-OVERADVERTISED', 'OPEN advertises websocket but the upgrade was not accepted '
                            '(frames %r, request status %r)' % (u.peer.frames, sut.status(u) if u.done else None), **st)
        if sorted(set(info.get('upgrades', [])) - {'websocket'}):
            return fail(PROP, 'UPGRADES-UNKNOWN', 'upgrades %r' % (info.get('upgrades'),), **st)
        return ''
    finally:
        sut.close()


@cond(quick=dict(timeout=120), thorough=dict(timeout=300))
def upgrades_list(fl: int, allow: bool, ti: int, ws_avail: bool, req_ws: bool) -> str:
    """
    pre: 0 <= fl <= 1 and 0 <= ti < len(TCFG)
    post: _ == ''
    """
    return verdict(untraced(_upgrades, fl, allow, ti, ws_avail, req_ws))


def _overlap(fl, ws_a, ws_b, slow_b):
    """Two open requests overlap on one server: the connect handler of the first is still running (it blocks / awaits for a
    second, e.g. an authentication look-up) when the second arrives. Each response carries an OPEN packet whose sid is the
    id ITS connect handler was given, with the upgrades list of its own transport, and both sessions are addressable."""
    sut = mk(fl, async_handlers=False)
    try:
        order = []
        if fl == 0:
            def connect(sid, environ):
                order.append(sid)
                if len(order) == 1 or slow_b:
                    sut.srv.sleep(1)
        else:
            async def connect(sid, environ):
                order.append(sid)
                if len(order) == 1 or slow_b:
                    await sut.shim.sleep(1)
        sut.srv.on('connect', connect)
        reqs = []
        for ws in (ws_a, ws_b):
            reqs.append((ws, sut.open('websocket' if ws else 'polling')))
            sut.settle()
        sut.run(until=sut.k.now + 3)
        st = dict(flavour=sut.flavour, transports=repr(('websocket' if ws_a else 'polling', 'websocket' if ws_b else 'polling')), overlap=True)
        if len(order) != 2 or order[0] == order[1]:
            return fail(PROP, 'ONE-SESSION', 'two overlapping opens: connect handler ran for %r' % (order,), **st)
        for i, (ws, r) in enumerate(reqs):
            if ws:
                if not r.peer.frames:
                    return fail(PROP, 'OPEN-FIRST', 'overlapping open #%d: no frame on the websocket' % (i + 1), **st)
                pk = decode_packet(r.peer.frames[0])
            else:
                if not r.done or sut.status(r) != 200:
                    return fail(PROP, 'OPEN-STATUS', 'overlapping open #%d answered %r' % (i + 1, sut.status(r) if r.done else None), **st)
                pk = _first_packets(sut, r, False)[0]
            if pk[0] != 0:
                return fail(PROP, 'OPEN-FIRST', 'overlapping open #%d: first packet %r' % (i + 1, pk), **st)
            info = json.loads(pk[1])
            if info.get('sid') != order[i]:
                return fail(PROP, 'OPEN-SID', 'overlapping open #%d: OPEN carries sid %r, its connect handler was given %r' % (
                    i + 1, info.get('sid'), order[i]), **st)
            if info.get('upgrades') != ([] if ws else ['websocket']):
                return fail(PROP, 'UPGRADES-LIST', 'overlapping open #%d (%s): upgrades %r' % (i + 1, 'websocket' if ws else 'polling', info.get('upgrades')), **st)
            a = sut.api('transport', order[i])
            sut.settle()
            if a.exc is not None or a.ret != ('websocket' if ws else 'polling'):
                return fail(PROP, 'SID-ADDRESSABLE', 'overlapping open #%d: transport(sid) -> %r / %r' % (i + 1, a.ret, a.exc), **st)
        return ''
    finally:
        sut.close()


@cond(quick=dict(timeout=60), thorough=dict(timeout=120))
def overlapping_opens(fl: int, ws_a: bool, ws_b: bool, slow_b: bool) -> str:
    """
    pre: 0 <= fl <= 1
    post: _ == ''
    """
    return verdict(untraced(_overlap, fl, ws_a, ws_b, slow_b))


COOKIES = (None, 'io', 'sess', {'name': 'c', 'path': '/x'}, {'name': 'c', 'Secure': True}, {'name': 'c', 'HttpOnly': False, 'path': '/'},
           {'name': 'c', 'SameSite': lambda: 'Strict'}, {'path': '/only'}, {'name': 'c', 'Secure': True, 'HttpOnly': True, 'Max-Age': '3600'})


def _cookie(fl, ci, jsonp, opens=1):
    c = COOKIES[ci]
    # the server gets its own copy of the configuration (an implementation that mutates it must not change the oracle's table)
    cfg = dict(c) if isinstance(c, dict) else c
    sut = mk(fl, async_handlers=False, cookie=cfg)
    try:
        for nth in range(opens):
            r = sut.open('polling', extra='&j=0' if jsonp else '')
            sut.settle()
            st = dict(flavour=sut.flavour, cookie=repr(c) if not isinstance(c, dict) else sorted(c), nth_open=nth)
            if not r.done or r.exc is not None or sut.status(r) != 200:
                return fail(PROP, 'COOKIE-OPEN-FAILS', 'open with cookie=%r: status %r exc %r' % (c, sut.status(r) if r.done else None, r.exc), **st)
            sid = sut.sids()[nth]
            sc = [v for k, v in sut.headers(r) if k.lower() == 'set-cookie']
            if c is None:
                if sc:
                    return fail(PROP, 'COOKIE-UNCONFIGURED', 'Set-Cookie %r without a configured cookie' % (sc,), **st)
                continue
            if len(sc) != 1:
                return fail(PROP, 'COOKIE-MISSING', '%d Set-Cookie headers' % len(sc), **st)
            parts = [p.strip() for p in sc[0].split(';')]
            name = c if isinstance(c, str) else c.get('name', 'io')
            if parts[0] != name + '=' + sid:
                return fail(PROP, 'COOKIE-SID', 'open #%d: cookie %r does not carry %s=%s' % (nth + 1, sc[0], name, sid), **st)
            attrs = {'path': '/', 'SameSite': 'Lax'} if isinstance(c, str) else {k: v for k, v in c.items() if k != 'name'}
            for k, v in attrs.items():
                if callable(v):
                    v = v()
                if v is True:
                    if k not in parts[1:]:
                        return fail(PROP, 'COOKIE-ATTRIBUTE', 'flag %r missing in %r' % (k, sc[0]), **st)
                elif v is False:
                    if any(p == k or p.startswith(k + '=') for p in parts[1:]):
                        return fail(PROP, 'COOKIE-ATTRIBUTE', 'attribute %r configured False but present in %r' % (k, sc[0]), **st)
                else:
                    if (k + '=' + v) not in parts[1:]:
                        return fail(PROP, 'COOKIE-ATTRIBUTE', '%s=%s missing in %r' % (k, v, sc[0]), **st)
        return ''
    finally:
        sut.close()


@cond(quick=dict(timeout=120), thorough=dict(timeout=300))
def cookie(fl: int, ci: int, jsonp: bool, opens: int) -> str:
    """
    pre: 0 <= fl <= 1 and 0 <= ci < len(COOKIES) and 1 <= opens <= 3
    post: _ == ''
    """
    # up to three sessions opened on the SAME server: every one of them gets the configured cookie
    return verdict(untraced(_cookie, fl, ci, jsonp, opens))


OUTCOMES = (None, True, False, 0, '', 'no way', {'code': 7, 'why': 'x"y'}, [1, 'a'], 'RAISE', 1, 'RAISE-TYPEERROR', 0.0, [])


def _connect_outcome(fl, oi, req_ws, jsonp):
    o = OUTCOMES[oi]
    sut = mk(fl, async_handlers=False)
    try:
        if o == 'RAISE':
            sut.connect_result = RuntimeError('boom')
        elif o == 'RAISE-TYPEERROR':
            sut.connect_result = TypeError('bad type')
        else:
            sut.connect_result = o
        r = sut.open('websocket' if req_ws else 'polling', extra='&j=2' if (jsonp and not req_ws) else '')
        sut.settle()
        st = dict(flavour=sut.flavour, outcome=repr(o), open='websocket' if req_ws else 'polling')
        accepted = o is None or o is True
        sids = sut.sids()
        if len(sids) != 1:
            return fail(PROP, 'CONNECT-ONCE', '%d connect events' % len(sids), **st)
        sid = sids[0]
        if accepted:
            if req_ws:
                if not r.peer.frames or decode_packet(r.peer.frames[0])[0] != 0:
                    return fail(PROP, 'OPEN-FIRST', 'accepted websocket open: frames %r' % (r.peer.frames,), **st)
            elif sut.status(r) != 200:
                return fail(PROP, 'OPEN-STATUS', 'accepted open answered %r' % sut.status(r), **st)
            return ''
        # rejected
        if not r.done or r.exc is not None:
            return fail(PROP, 'REJECT-RESPONSE', 'rejected open: done=%r exc=%r' % (r.done, r.exc), **st)
        truthy = o if (o not in ('RAISE', 'RAISE-TYPEERROR') and o) else None
        if req_ws and fl == 1:
            if r.peer.accepted or not r.peer.closed_by_server:
                return fail(PROP, 'REJECT-STATUS', 'rejected websocket open was not closed (events %r)' % (r.sr_calls,), **st)
            if truthy is not None and json.loads(r.peer.rejected or 'null') != truthy:
                return fail(PROP, 'REJECT-VALUE', 'close reason %r does not carry %r' % (r.peer.rejected, truthy), **st)
        else:
            if sut.status(r) != 401:
                return fail(PROP, 'REJECT-STATUS', 'connect handler outcome %r answered %r, expected 401' % (o, sut.status(r)), **st)
            if truthy is not None:
                try:
                    got = json.loads(sut.body(r).decode('utf-8'))
                except ValueError:
                    got = sut.body(r)
                if got != truthy:
                    return fail(PROP, 'REJECT-VALUE', '401 body %r does not carry %r' % (sut.body(r), truthy), **st)
        # discarded and never addressable
        if sut.live_sids():
            return fail(PROP, 'REJECT-DISCARDED', 'session table %r after a rejected open' % (sut.live_sids(),), **st)
        n0 = len(sut.events)
        sut.app_send(sid, 'x')
        g = sut.get(sid)
        p = sut.post(sid, '4hi')
        sut.settle()
        if len(sut.events) != n0:
            return fail(PROP, 'REJECT-EVENTS', 'events %r for a rejected id' % (sut.events[n0:],), **st)
        for q, nm in ((g, 'GET'), (p, 'POST')):
            if not q.done or q.exc is not None or sut.status(q) != 400:
                return fail(PROP, 'REJECT-ADDRESSABLE', '%s with the rejected id answered %r' % (nm, sut.status(q) if q.done else None), **st)
        for api in ('transport', 'get_session'):
            a = sut.api(api, sid)
            sut.settle()
            if not isinstance(a.exc, KeyError):
                return fail(PROP, 'REJECT-ADDRESSABLE', '%s(rejected id) -> %r / %r' % (api, a.ret, a.exc), **st)
        return ''
    finally:
        sut.close()


@cond(quick=dict(timeout=120), thorough=dict(timeout=300))
def connect_outcomes(fl: int, oi: int, req_ws: bool, jsonp: bool) -> str:
    """
    pre: 0 <= fl <= 1 and 0 <= oi < len(OUTCOMES)
    post: _ == ''
    """
    return verdict(untraced(_connect_outcome, fl, oi, req_ws, jsonp))


from vf.validate.stubs import ALL as VALIDATE  # noqa: E402  (stub-vs-real conformance, run before the obligations)
