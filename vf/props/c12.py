"""C12 Request admission: only well-addressed version-4 requests are let in."""
from vf.rt import P, cond, verdict, fail, untraced
from vf.props.common import mk, packets_of, SIM_STUBS, SIM_OUTSIDE

PROP = 'C12'
EXPLANATION = ('Whole-server level: one request whose method, EIO value, transport value, session kind, Upgrade/Connection '
               'headers, JSONP index and the configured transports are chosen by symbolic selectors is issued against a '
               'server holding the named session (built through the public API) and a bystander session. Refusal is '
               'checked against a reference admission table; "no effect at all" is checked differentially: the same '
               'follow-up probes are run with and without the refused request and must observe the same thing. The no-effect differential is also applied to any request the server CHOOSES to answer with a refusal although the table does not require it.')
STUBS = SIM_STUBS
OUTSIDE = SIM_OUTSIDE + ['header / query values outside the tables', 'requests issued at points of a session life other '
                         'than the seven session kinds']
NOT_CONSTRAINED = ['OPTIONS / POST without sid and without EIO=4 (the statement speaks of version 4 "when opening")',
                   'j= with an empty value', 'which of 400 / 405 is used when several refusal reasons apply',
                   'reaping of an already closed session by a request that names it']
ASSUMPTIONS = ['cooperative scheduling only']

METHODS = ('GET', 'POST', 'OPTIONS', 'PUT', 'DELETE', 'HEAD')
EIOS = (None, '3', '4', '5', '4&EIO=4')
TRANSPORTS = (None, 'polling', 'websocket', 'other', 'poll', 'socket')
SIDKINDS = ('absent', 'live-polling', 'live-upgraded', 'mid-upgrade', 'closed-not-reaped', 'unknown', 'rejected', 'empty')
UPHDRS = (None, {'Upgrade': 'websocket', 'Connection': 'Upgrade'}, {'Upgrade': 'WebSocket', 'Connection': 'keep-alive, Upgrade'},
          {'Upgrade': 'websocket'})
JS = (None, '0', 'x', '17')
CFGS = (None, ['polling'], ['websocket'], 'polling', 'websocket')     # (a single transport may be given by name)


def _build(fl, cfg, sk, bystander=True):
    """Server with a bystander polling session (one queued message) and the session of kind ``sk``."""
    kw = {}
    if cfg is not None:
        kw['transports'] = cfg
    sut = mk(fl, async_handlers=False, **kw)
    st = {'sut': sut, 'sid': None, 'peer': None, 'by': None, 'by_peer': None}
    first = 'websocket' if cfg in (['websocket'], 'websocket') else 'polling'
    if bystander:
        b = sut.open(first)
        sut.settle()
        st['by'] = sut.sids()[0]
        st['by_peer'] = b.peer
        sut.app_send(st['by'], 'for-bystander')
        sut.settle()
    if sk in ('absent',):
        return st
    if sk == 'empty':
        st['sid'] = ''          # the query carries an empty sid argument ("...&sid="): no session is named
        return st
    if sk == 'unknown':
        st['sid'] = 'nosuchsessionid'
        return st
    if sk == 'rejected':
        sut.connect_result = False
        sut.open(first)
        sut.settle()
        sut.connect_result = None
        st['sid'] = sut.sids()[-1]
        return st
    r = sut.open(first)
    sut.settle()
    sid = sut.sids()[-1]
    st['sid'] = sid
    st['peer'] = r.peer
    if sk == 'live-polling':
        if first == 'websocket':
            return None            # a polling session cannot exist on a websocket-only server
        sut.app_send(sid, 'queued-1')
        sut.settle()
    elif sk == 'live-upgraded':
        if first == 'polling':
            if cfg in (['polling'], 'polling'):
                return None
            u = sut.ws_upgrade(sid)
            sut.settle()
            u.peer.send('2probe')
            sut.settle()
            u.peer.send('5')
            sut.settle()
            st['peer'] = u.peer
    elif sk == 'mid-upgrade':
        if cfg is not None:
            return None
        sut.app_send(sid, 'queued-1')
        u = sut.ws_upgrade(sid)
        sut.settle()
        u.peer.send('2probe')
        sut.settle()
        st['peer'] = u.peer
    elif sk == 'closed-not-reaped':
        if first == 'websocket':
            return None
        sut.post(sid, '1')
        sut.settle()
    return st


def _probe(st, sk):
    """Observe every session through the public surface only; returns a comparable structure."""
    sut = st['sut']
    out = []
    by, sid = st['by'], st['sid']
    # bystander
    if st['by_peer'] is not None:
        out.append(('by-frames', list(st['by_peer'].frames)))
    else:
        g = sut.get(by)
        sut.settle()
        out.append(('by-poll', sut.status(g), packets_of(sut, g) if g.done and sut.status(g) == 200 else None))
    if sk == 'live-polling':
        sut.app_send(sid, 'after')
        sut.settle()
        g = sut.get(sid)
        sut.settle()
        out.append(('poll', g.done, sut.status(g), packets_of(sut, g) if g.done and sut.status(g) == 200 else None))
        try:
            out.append(('transport', sut.transport(sid)))
        except KeyError:
            out.append(('transport', 'dead'))
    elif sk == 'live-upgraded':
        sut.app_send(sid, 'after')
        sut.settle()
        out.append(('frames', list(st['peer'].frames), st['peer'].closed_by_server))
        try:
            out.append(('transport', sut.transport(sid)))
        except KeyError:
            out.append(('transport', 'dead'))
    elif sk == 'mid-upgrade':
        st['peer'].send('5')
        sut.settle()
        sut.app_send(sid, 'after')
        sut.settle()
        out.append(('frames', list(st['peer'].frames), st['peer'].closed_by_server))
        try:
            out.append(('transport', sut.transport(sid)))
        except KeyError:
            out.append(('transport', 'dead'))
    elif sk in ('closed-not-reaped', 'unknown', 'rejected'):
        sut.app_send(sid, 'after')
        sut.settle()
        g = sut.get(sid)
        sut.settle()
        out.append(('poll', g.done, sut.status(g)))
    out.append(('events', [(k, s, a) for k, s, a in sut.events]))
    out.append(('sessions-created', len(sut.sids())))
    return out


def _reasons(method, eio, tr, sk, up, j, cfg):
    """Refusal reasons per the statement. Returns (must_refuse, unconstrained)."""
    allowed = [cfg] if isinstance(cfg, str) else (cfg or ['polling', 'websocket'])
    if sk == 'empty':
        sk = 'absent'           # an empty sid argument names no session: the request is an opening request
    eff_tr = tr if tr is not None else 'polling'
    r400 = []
    if eff_tr not in allowed:
        r400.append('transport not allowed')
    opening = sk == 'absent' and method == 'GET'
    if opening and eio != '4':
        r400.append('not version 4')
    if j is not None and not j.isdigit():
        r400.append('non-numeric JSONP index')
    if sk in ('closed-not-reaped', 'unknown', 'rejected') and method in ('GET', 'POST'):
        r400.append('session id not live')
    if sk == 'absent' and method == 'POST':
        r400.append('POST without session')
    uph = (up or {}).get('Upgrade', '').lower() or None
    if method == 'GET' and sk in ('live-polling', 'mid-upgrade') and eff_tr != 'polling' and eff_tr != uph:
        r400.append('wrong transport for session')
    if method == 'GET' and sk == 'live-upgraded' and eff_tr != 'websocket':
        r400.append('wrong transport for session')
    r405 = method not in ('GET', 'POST', 'OPTIONS')
    unconstrained = (sk == 'absent' and method != 'GET' and eio != '4')
    return r400, r405, unconstrained


def _query(eio, tr, sid, j):
    parts = []
    if tr is not None:
        parts.append('transport=' + tr)
    if eio is not None:
        parts.append('EIO=' + eio)
    if sid is not None:
        parts.append('sid=' + sid)
    if j is not None:
        parts.append('j=' + j)
    return '&'.join(parts)


def _admission(fl, ci, mi, ei, ti, ski, ui, ji):
    method, eio, tr, sk, up, j, cfg = METHODS[mi], EIOS[ei], TRANSPORTS[ti], SIDKINDS[ski], UPHDRS[ui], JS[ji], CFGS[ci]
    r400, r405, unconstrained = _reasons(method, eio, tr, sk, up, j, cfg)
    if unconstrained:
        return ''
    # requests the table does not require to be refused: admission itself ("only if") is one-directional, but IF the server
    # answers such a request with a refusal (400 / 405 / websocket rejected), "a refused request has no effect at all" applies
    must = bool(r400) or r405
    # baseline: same state, no request
    base = _build(fl, cfg, sk)
    if base is None:
        return ''
    try:
        want = _probe(base, sk)
    finally:
        base['sut'].close()
    st = _build(fl, cfg, sk)
    sut = st['sut']
    state = dict(flavour=sut.flavour, method=method, sidkind=sk, transport=tr or 'absent')
    try:
        is_ws_req = up is not None and (up.get('Upgrade', '').lower() == 'websocket') and 'upgrade' in up.get('Connection', '').lower()
        ws = None
        if fl == 1 and is_ws_req and method == 'GET':
            # an ASGI server hands WebSocket handshakes to the application as a websocket scope
            from vf.props.common import WsPeer
            ws = WsPeer()
        if fl == 0 and is_ws_req and method == 'GET':
            from vf.props.common import WsPeer
            ws = WsPeer()
        body = b'4should-not-arrive' if method == 'POST' else b''
        r = sut.request(method, _query(eio, tr, st['sid'], j), dict(up) if up else None, body=body, ws=ws)
        sut.settle()
        desc = '%s ?%s hdr=%r' % (method, _query(eio, tr, st['sid'], j), up)
        if not must:
            if not r.done or r.exc is not None:
                return ''
            if ws is not None and fl == 1:
                if not ((ws.rejected is not None) or (not ws.accepted and ws.closed_by_server)):
                    return ''
            elif ws is not None and ws.accepted:
                return ''
            elif sut.status(r) not in (400, 405):
                return ''
            state['refused_by_choice'] = True
        if not r.done:
            return fail(PROP, 'REFUSED-REQUEST-HANGS', '%s did not complete (blocked in %s)' % (desc, r.task.what), **state)
        if r.exc is not None:
            return fail(PROP, 'REFUSED-REQUEST-RAISES', '%s: %s escaped handle_request (reasons %r)' % (
                desc, type(r.exc).__name__, r400 or ['method']), **state)
        if not must:
            pass
        elif ws is not None and fl == 1:
            refused = (ws.rejected is not None) or (not ws.accepted and ws.closed_by_server)
            if not refused:
                return fail(PROP, 'NOT-REFUSED', '%s (reasons %r) was not refused on the websocket scope: events %r' % (
                    desc, r400 or ['method'], r.sr_calls), **state)
        else:
            status = sut.status(r)
            ok = (status == 400 and bool(r400)) or (status == 405 and r405) or (status == 400 and r405 and False)
            if r400 and r405:
                ok = status in (400, 405)
            if not ok:
                return fail(PROP, 'NOT-REFUSED', '%s answered %r, expected %s (reasons %r)' % (
                    desc, status, '400' if not r405 else ('405' if not r400 else '400 or 405'), r400 or ['method']), **state)
        got = _probe(st, sk)
        if got != want:
            diff = [(a, b) for a, b in zip(got, want) if a != b]
            return fail(PROP, 'REFUSED-HAS-EFFECT', '%s (refused) changed what the sessions observe: %r' % (desc, diff[:2]), **state)
        return ''
    finally:
        sut.close()


@cond(quick=dict(timeout=170, parts=dict(FL=[0, 1], M=[0, 1, 2, 3])),
      thorough=dict(timeout=900, parts=dict(FL=[0, 1], M=[0, 1, 2, 3, 4, 5])))
def by_method_session_transport(fl: int, mi: int, ti: int, ski: int, ui: int) -> str:
    """
    pre: fl == P.FL and mi == P.M and 0 <= ti < len(TRANSPORTS) and 0 <= ski < len(SIDKINDS) and 0 <= ui < 3
    post: _ == ''
    """
    return verdict(untraced(_admission, fl, 0, mi, 2, ti, ski, ui, 0))


@cond(quick=dict(timeout=170, parts=dict(FL=[0, 1])), thorough=dict(timeout=600, parts=dict(FL=[0, 1])))
def by_version_and_jsonp(fl: int, mi: int, ei: int, ji: int, ski: int) -> str:
    """
    pre: fl == P.FL and 0 <= mi <= 2 and 0 <= ei < len(EIOS) and 0 <= ji < len(JS) and (0 <= ski <= 1 or ski == 7)
    post: _ == ''
    """
    return verdict(untraced(_admission, fl, 0, mi, ei, 1, ski, 0, ji))


@cond(quick=dict(timeout=170, parts=dict(FL=[0, 1])), thorough=dict(timeout=600, parts=dict(FL=[0, 1])))
def by_configured_transports(fl: int, ci: int, ti: int, ski: int, ui: int, mi: int) -> str:
    """
    pre: fl == P.FL and 1 <= ci < len(CFGS) and 0 <= ti < len(TRANSPORTS) and 0 <= ski <= 2 and 0 <= ui <= 1 and 0 <= mi <= 1
    post: _ == ''
    """
    return verdict(untraced(_admission, fl, ci, mi, 2, ti, ski, ui, 0))


@cond(quick=dict(timeout=170, C=2, E=2, parts=dict(FL=[0, 1])), thorough=dict(timeout=900, C=3, E=5, parts=dict(FL=[0, 1])))
def full_cross_product_sample(fl: int, ci: int, mi: int, ei: int, ti: int, ski: int, ui: int, ji: int) -> str:
    """
    pre: fl == P.FL and 0 <= ci < P.C and 4 <= mi <= 5 and 1 <= ei <= P.E and ei < len(EIOS) and 2 <= ti <= 3
    pre: 3 <= ski <= 6 and 3 <= ui <= 3 and 1 <= ji <= 2
    post: _ == ''
    """
    # the corner of the product the other conditions do not visit (unusual methods x odd headers x dead sessions)
    return verdict(untraced(_admission, fl, ci, mi, ei, ti, ski, ui, ji))


from vf.validate.stubs import ALL as VALIDATE  # noqa: E402  (stub-vs-real conformance, run before the obligations)


@cond(thorough=dict(timeout=1500, parts=dict(FL=[0, 1], M=[0, 1, 2, 3, 4, 5])))
def full_cross_product(fl: int, ci: int, mi: int, ei: int, ti: int, ski: int, ui: int, ji: int) -> str:
    """
    pre: fl == P.FL and mi == P.M and 0 <= ci < len(CFGS) and 0 <= ei < len(EIOS) and 0 <= ti < len(TRANSPORTS)
    pre: 0 <= ski < len(SIDKINDS) and 0 <= ui < 3 and 0 <= ji < len(JS)
    post: _ == ''
    """
    # thorough tier only: the whole product method x EIO x transport x session kind x headers x JSONP index x configuration
    return verdict(untraced(_admission, fl, ci, mi, ei, ti, ski, ui, ji))
