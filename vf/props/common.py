"""Shared pieces of the whole-server harnesses."""
from vf.simenv.threaded import ThreadedSut, WsPeer          # noqa: F401
from vf.simenv.aio import AsyncSut
from vf.simenv.kernel import Kernel                          # noqa: F401
from vf.oracles.wire import split_payload, decode_packet    # noqa: F401

FLAVOURS = ('threaded', 'asyncio')

SIM_STUBS = [
    'kernel: cooperative tasks (greenlets for the threaded server, coroutines for the asyncio server) switching only at '
    'blocking calls; virtual clock advancing to the earliest deadline when nothing is runnable; round-robin ready queue',
    'server._async table (thread, queue, queue_empty, event, sleep, websocket) replaced by kernel-backed stubs',
    'module globals engineio.socket.time / engineio.async_socket.time = kernel clock',
    'module global asyncio of async_server / async_socket / async_drivers.asgi = shim (sleep, wait_for, wait, '
    'ensure_future, create_task, Queue, Event) with the real asyncio exception classes',
    'ASGI receive/send callables and WSGI environ/start_response built by the harness; the real async_drivers/asgi.py '
    'translate_request / make_response / WebSocket run on top',
    'simulated WSGI WebSocket mirroring _websocket_wsgi.SimpleWebSocketWSGI (wait -> frame | None on close, send raises '
    'OSError after close)',
    'engineio.base_server.secrets = deterministic counter-free stub (session ids differ by the sequence number only)',
    'logger = null logger whose exception() re-raises CrossHair control-flow exceptions swallowed by bare except:',
]
SIM_OUTSIDE = ['pre-emptive thread interleavings between two blocking points (async_mode="threading" with real threads)',
               'real sockets, real time, signal handling', 'the third-party drivers aiohttp, sanic, tornado, eventlet, gevent, uwsgi']


def mk(flavour, choices=(), **cfg):
    if flavour == 'threaded' or flavour == 0:
        return ThreadedSut(choices=choices, **cfg)
    return AsyncSut(choices=choices, **cfg)


def packets_of(sut, r):
    """Packets a finished polling response carries, decoded independently of engineio."""
    return split_payload(sut.body(r).decode('utf-8'))


def frames_packets(peer):
    return [decode_packet(f) for f in peer.frames]


def open_polling(sut, **kw):
    r = sut.open('polling', **kw)
    sut.settle()
    return r


def hang_state(sut, task):
    """Describe where a never-finishing request/API task is blocked (used by known-finding waivers)."""
    fr = task.frames()
    return {'what': task.what or '', 'frames': fr}


def blocked_in_close_join(task):
    fr = task.frames()
    return (task.what == 'queue.join') and any(f.endswith('Socket.close') for f in fr)
