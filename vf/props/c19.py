"""C19 Response transformations (compression, JSONP) are lossless and well labelled."""
from vf.rt import P, cond, verdict, fail, untraced
from vf.oracles.js import parse_jsonp, JsError, surrogates_to_text
from vf.oracles.refs import ref_wire_text
from vf.props.common import mk, SIM_STUBS, SIM_OUTSIDE
from engineio import packet, payload, base_server

PROP = 'C19'
EXPLANATION = ('Unit level: Payload.encode(jsonp_index=...) on symbolic payload texts (all of Unicode) evaluated by an independent '
               'ES2019 string-literal evaluator. Request level (both servers): sequences of requests with symbolic '
               'http_compression, symbolic compression_threshold (any integer), Accept-Encoding shapes from a table and a '
               'symbolic number of queued messages; zlib/gzip are replaced by invertible tagging stubs so that the body can be '
               'compared exactly.')
STUBS = SIM_STUBS + ['engineio.base_server.zlib / gzip = tagging functions DEFLATE(data) / GZIP(data) (contract: invertible); the '
                     'real libraries are checked for losslessness once per run on a concrete body']
OUTSIDE = SIM_OUTSIDE + ['payload texts longer than the stated bound', 'Accept-Encoding values outside the table',
                         'JSONP index values outside the table (the index is rendered in decimal)']
NOT_CONSTRAINED = ['whether the server must compress when it may', 'Accept-Encoding entries with q=0',
                   'upper-case coding names (content-codings are case-insensitive but not compressing is always allowed)']
ASSUMPTIONS = ['zlib/gzip losslessness is library-trusted']

IDX = (0, 7, 233, 1000000000)
BINS = (b'', b'\x00', b'"\\', b'\xff\xfe\xfd')


@cond(quick=dict(S=1, timeout=150), thorough=dict(S=2, timeout=1500))
def jsonp_unit(s: str, t: int, ii: int, second: int, bi: int) -> str:
    """
    pre: len(s) <= P.S and 4 <= t <= 5 and 0 <= ii < len(IDX) and 0 <= second <= 2 and 0 <= bi < len(BINS)
    pre: (second == 1 or bi == 0) and (second == 0 or ii == 0)
    post: _ == ''
    """
    pkts = [packet.Packet(t, s)]
    if second == 1:
        pkts.append(packet.Packet(packet.MESSAGE, BINS[bi]))
    elif second == 2:
        pkts.insert(0, packet.Packet(packet.MESSAGE, {'k': '"\\\n'}))
    plain = '\x1e'.join(ref_wire_text(p.packet_type, p.data) for p in pkts)
    body = payload.Payload(packets=[packet.Packet(p.packet_type, p.data) for p in pkts]).encode(jsonp_index=IDX[ii])
    try:
        idx, val = parse_jsonp(body)
    except JsError as e:
        return verdict(fail(PROP, 'JSONP-STATEMENT', 'payload %r -> body %r is not one complete ___eio[i]("...") statement: %s' % (
            plain, body, e)))
    if idx != IDX[ii]:
        return verdict(fail(PROP, 'JSONP-INDEX', 'index %r != %r' % (idx, IDX[ii])))
    # (a Python str may hold a high+low surrogate pair as two code points; JavaScript strings are UTF-16, where the
    # same pair IS the astral character: compare modulo that representation difference)
    if val != surrogates_to_text(plain):
        return verdict(fail(PROP, 'JSONP-LOSSLESS', 'payload %r -> body %r evaluates to %r' % (plain, body, val)))
    return verdict('')


JS_TEXTS = ('', 'abc', '"', '\\', '\\"', '"\\', 'a\\"b', '\\\\', '\n', '\r\n', '\\n', '  ', '\x00\x1f\x7f', '\U0001f600', "'",
            '");alert(1);("', '\\u0041', '\\x41', '</script>', '\x1e', '\\\n', 'b"\\', '%22', '\\' * 5 + '"' * 3)


@cond(quick=dict(K2=6, timeout=150), thorough=dict(K2=23, timeout=900))
def jsonp_table(k: int, k2: int, ii: int, binary: int) -> str:
    """
    pre: 0 <= k < len(JS_TEXTS) and 0 <= k2 <= P.K2 and ii == 1 and binary == 2
    post: _ == ''
    """
    # multi-character interactions (backslash next to quote, escape look-alikes, script-injection shapes)
    return verdict(untraced(_jsonp_table, k, k2, ii, binary))


def _jsonp_table(k, k2, ii, binary):
    pkts = [(4, JS_TEXTS[k]), (4, JS_TEXTS[k2]), (4, BINS[binary])]
    plain = '\x1e'.join(ref_wire_text(t, d) for t, d in pkts)
    body = payload.Payload(packets=[packet.Packet(t, d) for t, d in pkts]).encode(jsonp_index=IDX[ii])
    try:
        idx, val = parse_jsonp(body)
    except JsError as e:
        return fail(PROP, 'JSONP-STATEMENT', 'payload %r -> body %r: %s' % (plain, body, e))
    if idx != IDX[ii] or val != plain:
        return fail(PROP, 'JSONP-LOSSLESS', 'payload %r -> body %r evaluates to %r (index %r)' % (plain, body, val, idx))
    return ''


ACCEPT = (None, 'gzip', 'deflate', 'gzip, deflate', 'deflate,gzip', 'br, gzip;q=0.5', 'identity', ' gzip ', 'br', '*', '', 'GZIP',
          'Gzip, Deflate')


class _Zlib:
    @staticmethod
    def compress(data, *a, **kw):
        return b'DEFLATE(' + data + b')'


class _GzipFile:
    def __init__(self, fileobj=None, mode='w', **kw):
        self.f = fileobj

    def __enter__(self):
        return self

    def __exit__(self, *a):
        return False

    def write(self, data):
        self.f.write(b'GZIP(' + data + b')')


class _Gzip:
    GzipFile = _GzipFile

    @staticmethod
    def compress(data, *a, **kw):
        return b'GZIP(' + data + b')'


def _offered(accept, coding):
    if accept is None:
        return False
    # (content-coding names are case-insensitive)
    return any(e.split(';')[0].strip().lower() == coding.lower() for e in accept.split(','))


def _check_response(sut, r, accept, enabled, threshold, plain, what, jsonp_idx=None):
    if r.done and r.exc is not None:
        return fail(PROP, 'RESPONSE', '%s (Accept-Encoding %r): %s escaped the request handler: %s' % (
            what, accept, type(r.exc).__name__, r.exc), flavour=sut.flavour, response=what)
    hs = sut.headers(r)
    ces = [v for k, v in hs if k.lower() == 'content-encoding']
    body = sut.body(r)
    st = dict(flavour=sut.flavour, response=what)
    if len(ces) > 1:
        return fail(PROP, 'ENCODING-LABEL', '%s: several Content-Encoding headers %r' % (what, ces), **st)
    if ces:
        e = ces[0]
        if e not in ('gzip', 'deflate'):
            return fail(PROP, 'ENCODING-LABEL', '%s: Content-Encoding %r' % (what, e), **st)
        tag = (b'GZIP(' if e == 'gzip' else b'DEFLATE(')
        if not body.startswith(tag) or not body.endswith(b')'):
            return fail(PROP, 'ENCODING-LABEL', '%s: declared %s but the body is %r' % (what, e, body[:40]), **st)
        inner = body[len(tag):-1]
        if not _offered(accept, e):
            return fail(PROP, 'ENCODING-NOT-OFFERED', '%s: %s declared, request offered %r' % (what, e, accept), **st)
        if not enabled:
            return fail(PROP, 'ENCODING-DISABLED', '%s: %s declared although http_compression is off' % (what, e), **st)
        if len(inner) < threshold:
            return fail(PROP, 'ENCODING-BELOW-THRESHOLD', '%s: %s declared for %d bytes, threshold %d' % (what, e, len(inner), threshold), **st)
    else:
        inner = body
        if body.startswith(b'GZIP(') or body.startswith(b'DEFLATE('):
            return fail(PROP, 'UNDECLARED-COMPRESSION', '%s: body compressed without Content-Encoding' % what, **st)
    if plain is not None:
        text = inner.decode('utf-8')
        if jsonp_idx is not None:
            try:
                idx, text = parse_jsonp(text)
            except JsError as ex:
                return fail(PROP, 'JSONP-STATEMENT', '%s: %r: %s' % (what, text[:60], ex), **st)
        if text != plain:
            return fail(PROP, 'LOSSLESS', '%s: decoded body %r != payload %r' % (what, text[:80], plain[:80]), **st)
    return ''


MSGS = ('hello', 'quote " backslash \\ lf \n cr \r', '  \x00\U0001f600', {'k': ['v"', 1]}, b'\x00\xff"', 'x' * 30)


def _sequence(fl, enabled, threshold, nmsg, a1, a2, a3, jsonp, order):
    saved = (base_server.zlib, base_server.gzip)
    base_server.zlib, base_server.gzip = _Zlib, _Gzip
    sut = mk(fl, async_handlers=False, http_compression=enabled, compression_threshold=threshold)
    try:
        sut.open('polling')
        sut.settle()
        sid = sut.sids()[0]
        for i in range(nmsg):
            sut.app_send(sid, MSGS[i % len(MSGS)])
        sut.settle()
        plain = '\x1e'.join(ref_wire_text(4, MSGS[i % len(MSGS)]) for i in range(nmsg))
        steps = (('bad-sid', a1), ('poll', a2), ('post', a3)) if order == 0 else (('post', a3), ('bad-sid', a1), ('poll', a2))
        if order == 2:
            steps = (('put', a1), ('poll', a2), ('post', a3), ('bad-sid', a1), ('post', a2))
        for what, ai in steps:
            acc = ACCEPT[ai]
            hdr = {'Accept-Encoding': acc} if acc is not None else None
            if what == 'poll':
                if nmsg == 0:
                    continue
                r = sut.get(sid, hdr, extra='&j=5' if jsonp else '')
                sut.settle()
                m = _check_response(sut, r, acc, enabled, threshold, plain, what, 5 if jsonp else None)
            elif what == 'post':
                r = sut.post(sid, '4x', headers=hdr)
                sut.settle()
                m = _check_response(sut, r, acc, enabled, threshold, 'OK', what)
            elif what == 'put':
                r = sut.request('PUT', 'transport=polling&sid=' + sid, hdr)
                sut.settle()
                m = _check_response(sut, r, acc, enabled, threshold, None, what)
            else:
                r = sut.request('GET', 'transport=polling&sid=' + 'n' * 40, hdr)
                sut.settle()
                m = _check_response(sut, r, acc, enabled, threshold, None, what)
            if not r.done:
                return fail(PROP, 'RESPONSE', '%s did not complete' % what, flavour=sut.flavour)
            if m:
                return m
        # later responses of the SAME server are labelled on their own merits: a small payload polled by a client that offers
        # no encoding, and the handshake of another client
        sut.app_send(sid, 'tail')
        sut.settle()
        r = sut.get(sid, None, extra='&j=5' if jsonp else '')
        sut.settle()
        if not r.done:
            return fail(PROP, 'RESPONSE', 'second poll did not complete', flavour=sut.flavour)
        m = _check_response(sut, r, None, enabled, threshold, '4tail', 'second poll (no Accept-Encoding)', 5 if jsonp else None)
        if m:
            return m
        r = sut.open('polling')
        sut.settle()
        m = _check_response(sut, r, None, enabled, threshold, None, 'handshake of a second client (no Accept-Encoding)')
        if m:
            return m
        # ... and a SHORTER payload polled with the same Accept-Encoding as the first poll (whatever an earlier, longer
        # compressed response left behind in the server must not show up in this one)
        acc2 = ACCEPT[a2]
        sut.app_send(sid, 'x')
        sut.settle()
        r = sut.get(sid, {'Accept-Encoding': acc2} if acc2 is not None else None, extra='&j=5' if jsonp else '')
        sut.settle()
        if not r.done:
            return fail(PROP, 'RESPONSE', 'third poll did not complete', flavour=sut.flavour)
        m = _check_response(sut, r, acc2, enabled, threshold, '4x', 'third poll (shorter payload, same Accept-Encoding)', 5 if jsonp else None)
        if m:
            return m
        # a second server instance in the same process must not inherit labels from the first
        sut2 = mk(fl, async_handlers=False, http_compression=False)
        try:
            sut2.open('polling')
            sut2.settle()
            r = sut2.post(sut2.sids()[0], '4y')
            sut2.settle()
            m = _check_response(sut2, r, None, False, 0, 'OK', 'post on a second server')
            if m:
                return m
        finally:
            sut2.k.teardown()
        return ''
    finally:
        sut.close()
        base_server.zlib, base_server.gzip = saved


@cond(quick=dict(N0=2, N=2, A=1, timeout=240, parts=dict(FL=[0, 1], ORD=[0, 1, 2], EN=[0, 1], J=[0, 1])),
      thorough=dict(N0=1, N=3, A=2, timeout=1500, parts=dict(FL=[0, 1], ORD=[0, 1, 2], EN=[0, 1], J=[0, 1])))
def labelling_sequences(fl: int, enabled: bool, threshold: int, nmsg: int, a1: int, a2: int, a3: int, jsonp: bool, order: int) -> str:
    """
    pre: fl == P.FL and order == P.ORD and enabled == bool(P.EN) and jsonp == bool(P.J) and P.N0 <= nmsg <= P.N and 1 <= a1 <= P.A
    pre: 0 <= a2 < len(ACCEPT) and 0 <= a3 < P.A and (P.A > 1 or a3 == 0)
    post: _ == ''
    """
    # threshold is an UNBOUNDED symbolic int: each size comparison in the server splits it at the body size
    return verdict(_sequence(fl, enabled, threshold, nmsg, a1, a2, a3, jsonp, order))


SIZES = (1, 40, 700, 3000, 9000)


def _real_codec_polls(fl, ai, i0, i1, i2, jsonp):
    """REAL zlib / gzip (no tagging stubs), real server through its gateway, threshold 0: three polls of one server object
    with payloads of the chosen sizes; each response, decoded STRICTLY by the codec its Content-Encoding names (one complete
    stream, nothing after it), is the payload."""
    import gzip
    import zlib
    acc = ACCEPT[ai]
    sut = mk(fl, async_handlers=False, http_compression=True, compression_threshold=0)
    try:
        sut.open('polling')
        sut.settle()
        sid = sut.sids()[0]
        for n, i in enumerate((i0, i1, i2)):
            text = ('m%d-' % n) + ''.join(chr(33 + (7 * j + n) % 90) for j in range(SIZES[i]))
            sut.app_send(sid, text)
            sut.settle()
            r = sut.get(sid, {'Accept-Encoding': acc} if acc is not None else None, extra='&j=3' if jsonp else '')
            sut.settle()
            st = dict(flavour=sut.flavour, nth_poll=n, accept=repr(acc))
            if r.done and r.exc is not None:
                return fail(PROP, 'RESPONSE', 'poll #%d: %s escaped the request handler: %s' % (n, type(r.exc).__name__, r.exc), **st)
            if not r.done or sut.status(r) != 200:
                return fail(PROP, 'RESPONSE', 'poll #%d: done=%s' % (n, r.done), **st)
            ces = [v for k, v in sut.headers(r) if k.lower() == 'content-encoding']
            body = sut.body(r)
            if len(ces) > 1:
                return fail(PROP, 'ENCODING-LABEL', 'poll #%d: several Content-Encoding headers %r' % (n, ces), **st)
            try:
                if ces == ['gzip']:
                    d = zlib.decompressobj(16 + zlib.MAX_WBITS)
                    plain = d.decompress(body)
                    if not d.eof or d.unused_data:
                        return fail(PROP, 'LOSSLESS', 'poll #%d: body declared gzip is not one complete gzip stream (%d bytes follow it)' % (
                            n, len(d.unused_data)), **st)
                elif ces == ['deflate']:
                    d = zlib.decompressobj()
                    plain = d.decompress(body)
                    if not d.eof or d.unused_data:
                        return fail(PROP, 'LOSSLESS', 'poll #%d: body declared deflate is not one complete zlib stream' % n, **st)
                elif ces:
                    return fail(PROP, 'ENCODING-LABEL', 'poll #%d: Content-Encoding %r' % (n, ces), **st)
                else:
                    plain = body
            except zlib.error as e:
                return fail(PROP, 'LOSSLESS', 'poll #%d: body declared %r cannot be decoded: %s' % (n, ces, e), **st)
            if ces and not _offered(acc, ces[0]):
                return fail(PROP, 'ENCODING-NOT-OFFERED', 'poll #%d: %s declared, request offered %r' % (n, ces[0], acc), **st)
            got = plain.decode('utf-8')
            if jsonp:
                try:
                    idx, got = parse_jsonp(got)
                except JsError as ex:
                    return fail(PROP, 'JSONP-STATEMENT', 'poll #%d: %r: %s' % (n, got[:60], ex), **st)
            if got != '4' + text:
                return fail(PROP, 'LOSSLESS', 'poll #%d: decoded body %r... != payload %r...' % (n, got[:40], ('4' + text)[:40]), **st)
        return ''
    finally:
        sut.close()


def _empty_release(fl, enabled, ai, jsonp, how):
    """A pending poll that is released carrying NO packet at all (the client POSTs CLOSE / the application disconnects the
    session while the poll waits): what the client receives, after undoing encoding and JSONP wrapping, is the empty
    payload - in particular a JSONP body is still one complete call statement."""
    saved = (base_server.zlib, base_server.gzip)
    base_server.zlib, base_server.gzip = _Zlib, _Gzip
    sut = mk(fl, async_handlers=False, http_compression=enabled, compression_threshold=0)
    try:
        acc = ACCEPT[ai]
        sut.open('polling')
        sut.settle()
        sid = sut.sids()[0]
        g = sut.get(sid, {'Accept-Encoding': acc} if acc is not None else None, extra='&j=5' if jsonp else '')
        sut.settle()
        if g.done:
            return ''
        if how == 0:
            sut.post(sid, '1')
        else:
            sut.app_disconnect(sid)
        sut.settle()
        sut.run(until=sut.k.now + 1)
        if not g.done or sut.status(g) != 200:
            return ''           # not released, or answered with an error: other properties (C07 / C15) decide that
        pk = None
        try:
            body = sut.body(g)
            ces = [v for k_, v in sut.headers(g) if k_.lower() == 'content-encoding']
            if ces:
                tag = (b'GZIP(' if ces[0] == 'gzip' else b'DEFLATE(')
                body = body[len(tag):-1] if body.startswith(tag) else body
            text = body.decode('utf-8')
            if jsonp:
                idx, text = parse_jsonp(text)
        except JsError as ex:
            return fail(PROP, 'JSONP-STATEMENT', 'poll released with no packet: body %r: %s' % (sut.body(g)[:60], ex), flavour=sut.flavour)
        from vf.oracles.wire import split_payload
        try:
            pk = split_payload(text) if text else []
        except Exception as ex:  # noqa
            return fail(PROP, 'LOSSLESS', 'poll released with no packet to deliver: the client receives %r, which is not a payload (%s)' % (
                text[:40], ex), flavour=sut.flavour)
        if any(t not in (1, 6) for t, d in pk):
            return fail(PROP, 'LOSSLESS', 'poll released by the end of the session: the client receives %r (packets %r)' % (text[:40], pk), flavour=sut.flavour)
        return ''
    finally:
        sut.close()
        base_server.zlib, base_server.gzip = saved


@cond(quick=dict(timeout=120), thorough=dict(timeout=300))
def poll_released_without_packets(fl: int, enabled: bool, ai: int, jsonp: bool, how: int) -> str:
    """
    pre: 0 <= fl <= 1 and 0 <= ai < len(ACCEPT) and 0 <= how <= 1
    post: _ == ''
    """
    return verdict(untraced(_empty_release, fl, enabled, ai, jsonp, how))


@cond(quick=dict(timeout=170, parts=dict(FL=[0, 1])), thorough=dict(timeout=600, parts=dict(FL=[0, 1])))
def real_codec_polls(fl: int, ai: int, i0: int, i1: int, i2: int, jsonp: bool) -> str:
    """
    pre: fl == P.FL and (0 <= ai <= 4 or 11 <= ai <= 12) and 0 <= i0 < len(SIZES) and 0 <= i1 < len(SIZES) and 0 <= i2 < len(SIZES)
    post: _ == ''
    """
    return verdict(untraced(_real_codec_polls, fl, ai, i0, i1, i2, jsonp))


from vf.validate.stubs import ALL as _STUBS  # noqa: E402
VALIDATE = list(_STUBS)
