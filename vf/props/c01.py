"""C01 Packet encoding is the Engine.IO v4 wire form and decoding inverts it."""
from vf.rt import P, cond, verdict, fail, untraced
from vf.oracles.refs import ref_b64, ref_compact_json, ref_wire_text
from engineio import packet
from engineio import json as eio_json

PROP = 'C01'
EXPLANATION = ('Unit level: Packet.__init__/encode/decode and engineio.json.loads/_safe_int run on symbolic '
               'packet types, texts, byte strings, flag sequences and JSON leaves; the oracle is an independent '
               'reference (bit-arithmetic base64, hand-written compact JSON).')
STUBS = ['Packet.json seam (documented json= parameter): a stub whose loads() returns one of eight outcome '
         'classes chosen by a symbolic index / always raises ValueError ("never JSON") - used where CrossHair '
         'cannot push a symbolic string through the C json scanner']
OUTSIDE = ['texts longer than the stated len(s) bound', 'byte strings longer than the stated bound',
           'JSON nesting deeper than 2', 'NaN/Infinity payloads', 'custom json= modules',
           'RecursionError on pathologically deep JSON']
ASSUMPTIONS = ['stdlib json/base64 are trusted except where compared with the reference models']


class _NeverJson:
    """json seam: nothing parses as JSON (decode must then keep the text)."""
    @staticmethod
    def loads(s, **kw):
        raise ValueError('not json')
    dumps = staticmethod(eio_json.dumps)


_OUTCOMES = ({'a': 1}, [1, 'x'], 'str', 1.5, None, 7, True, False, -3, ValueError)


class _OutcomeJson:
    """json seam: loads() yields the outcome class selected by ``k`` (the parser's verdict is symbolic)."""
    def __init__(self, k):
        self.k = k
        self.seen = []

    def loads(self, s, **kw):
        self.seen.append(s)
        o = _OUTCOMES[self.k]
        if o is ValueError:
            raise ValueError('not json')
        return o
    dumps = staticmethod(eio_json.dumps)


def _with_json(stub, fn):
    old = packet.Packet.json
    packet.Packet.json = stub
    try:
        return fn()
    finally:
        packet.Packet.json = old


class _B64Seam:
    """base64 seam (module global ``base64`` of engineio.packet): b64decode() yields an arbitrary (symbolic)
    byte string or refuses; the library's own correctness is checked separately on concrete inputs."""
    def __init__(self, r, refuse):
        self.r, self.refuse, self.seen = r, refuse, []

    def b64decode(self, x, *a, **kw):
        self.seen.append((x, a, kw))
        if self.refuse:
            import binascii
            raise binascii.Error('Incorrect padding')
        return self.r

    def b64encode(self, x, *a, **kw):
        import base64
        return base64.b64encode(x, *a, **kw)


def _with_b64(stub, fn):
    old = packet.base64
    packet.base64 = stub
    try:
        return fn()
    finally:
        packet.base64 = old


@cond(quick=dict(S=6, timeout=60), thorough=dict(S=10, timeout=600))
def text_wire(t: int, s: str, f1: bool, f2: bool, f3: bool) -> str:
    """
    pre: 0 <= t <= 6 and len(s) <= P.S
    post: _ == ''
    """
    p = packet.Packet(t, s)
    want = str(t) + s
    for i, f in enumerate((f1, f2, f3)):
        e = p.encode(b64=f)
        if not isinstance(e, str) or e != want:
            return verdict(fail(PROP, 'TEXT-WIRE', 'encode #%d (b64=%s) of Packet(%d, %r) = %r' % (i, f, t, s, e)))
    if p.binary:
        return verdict(fail(PROP, 'TEXT-NOT-BINARY', 'text packet flagged binary'))
    return verdict('')


@cond(quick=dict(S=6, timeout=60), thorough=dict(S=10, timeout=600))
def text_inverts(t: int, s: str) -> str:
    """
    pre: 0 <= t <= 6 and len(s) <= P.S
    post: _ == ''
    """
    # never-JSON seam: whatever the text, the parser says "not JSON" => data must be the text itself
    def go():
        return packet.Packet(encoded_packet=packet.Packet(t, s).encode())
    try:
        d = _with_json(_NeverJson, go)
    except Exception as e:  # noqa  (the wire text starts with its type digit: decoding it must succeed)
        return verdict(fail(PROP, 'TEXT-DECODE-RAISES', '%s for %r' % (type(e).__name__, str(t) + s)))
    if d.packet_type != t or d.data != s or d.binary:
        return verdict(fail(PROP, 'TEXT-INVERT', 'decode(%r) -> type %r data %r binary %r' % (
            str(t) + s, d.packet_type, d.data, d.binary)))
    return verdict('')


@cond(quick=dict(timeout=30), thorough=dict(timeout=60))
def none_payload(t: int, f: bool) -> str:
    """
    pre: 0 <= t <= 6
    post: _ == ''
    """
    p = packet.Packet(t)
    e = p.encode(b64=f)
    if e != str(t):
        return verdict(fail(PROP, 'NONE-WIRE', repr(e)))
    d = packet.Packet(encoded_packet=e)
    if d.packet_type != t or d.data != '' or d.binary:
        return verdict(fail(PROP, 'NONE-INVERT', 'type %r data %r' % (d.packet_type, d.data)))
    return verdict('')


def _binary_history(data, b, flags, want_txt):
    p = packet.Packet(packet.MESSAGE, data)
    if not p.binary:
        return fail(PROP, 'BINARY-FLAG', 'bytes payload not flagged binary')
    for i, f in enumerate(flags):
        e = p.encode(b64=f)
        if f:
            if not isinstance(e, str) or e != want_txt:
                return fail(PROP, 'BINARY-TEXT-CHANNEL', 'encode #%d (b64=True) after flags %r = %r, want %r' % (
                    i, flags[:i], e, want_txt))
        else:
            if not isinstance(e, (bytes, bytearray)) or bytes(e) != b:
                return fail(PROP, 'BINARY-RAW-CHANNEL', 'encode #%d (b64=False) after flags %r = %r, want %r' % (
                    i, flags[:i], e, b))
    return ''


@cond(quick=dict(timeout=60, parts=dict(N=[0])), thorough=dict(timeout=900, parts=dict(N=[0, 1])))
def binary_history(b: bytes, ba: bool, f1: bool, f2: bool, f3: bool) -> str:
    """
    pre: len(b) == P.N
    post: _ == ''
    """
    # real base64 library, every byte string of the stated length, every encode history of length 3
    return verdict(_binary_history(bytearray(b) if ba else b, b, (f1, f2, f3), 'b' + ref_b64(b)))


class _EncOut:
    def __init__(self, r):
        self.r = r

    def decode(self, *a):
        return self.r


class _B64EncSeam:
    """base64 seam for the encoder: b64encode() yields an arbitrary (symbolic) ASCII text."""
    def __init__(self, r):
        self.r, self.seen = r, []

    def b64encode(self, x, *a, **kw):
        self.seen.append((bytes(x), a, kw))
        return _EncOut(self.r)


@cond(quick=dict(B=4, S=4, timeout=120), thorough=dict(B=8, S=8, timeout=900))
def binary_history_seam(b: bytes, ba: bool, r: str, f1: bool, f2: bool, f3: bool, f4: bool) -> str:
    """
    pre: len(b) <= P.B and len(r) <= P.S
    post: _ == ''
    """
    # whatever text the base64 encoder yields for the payload, each call returns the form of the channel asked for
    stub = _B64EncSeam(r)
    msg = _with_b64(stub, lambda: _binary_history(bytearray(b) if ba else b, b, (f1, f2, f3, f4), 'b' + r))
    if msg:
        return verdict(msg)
    for x, a, kw in stub.seen:
        if x != b or a or kw:
            return verdict(fail(PROP, 'BINARY-B64-INPUT', 'encoder called with %r %r %r for %r' % (x, a, kw, b)))
    return verdict('')


_B64_ENC_TABLE = (b'', b'\x00', b'\xff\xfe', b'\xfb\xff\xbf', b'abcd', b'\x00' * 7, bytes(range(256)))


@cond(quick=dict(timeout=60), thorough=dict(timeout=60))
def binary_history_table(k: int, ba: bool, f1: bool, f2: bool, f3: bool) -> str:
    """
    pre: 0 <= k < len(_B64_ENC_TABLE)
    post: _ == ''
    """
    b = _B64_ENC_TABLE[k]
    return verdict(_binary_history(bytearray(b) if ba else b, b, (f1, f2, f3), 'b' + ref_b64(b)))


def _binary_inverts(b, ba, reenc=True):
    txt = 'b' + ref_b64(b)
    d = packet.Packet(encoded_packet=txt)
    if not d.binary or d.packet_type != packet.MESSAGE or d.data != b:
        return fail(PROP, 'BINARY-B64-INVERT', 'decode(%r) -> %r/%r/%r' % (txt, d.binary, d.packet_type, d.data))
    # the decoded packet is a packet like any other: encoding it again yields the form of the channel asked for
    m = _reencode(d, b, txt, 'decode(%r)' % txt) if reenc else ''
    if m:
        return m
    raw = bytearray(b) if ba else b
    d = packet.Packet(encoded_packet=raw)
    if not d.binary or d.packet_type != packet.MESSAGE or d.data != b or not isinstance(d.data, bytes):
        return fail(PROP, 'BINARY-RAW-INVERT', 'decode(%r) -> %r/%r/%r' % (raw, d.binary, d.packet_type, d.data))
    return _reencode(d, b, txt, 'decode(%r)' % (raw,)) if reenc else ''


def _reencode(d, b, txt, what):
    for flags in ((True, False, True), (False, True, False)):
        for f in flags:
            e = d.encode(b64=f)
            if f and e != txt:
                return fail(PROP, 'BINARY-TEXT-CHANNEL', '%s, then encode(b64=True) = %r, want %r' % (what, e, txt))
            if not f and (not isinstance(e, (bytes, bytearray)) or bytes(e) != b):
                return fail(PROP, 'BINARY-RAW-CHANNEL', '%s, then encode(b64=False) = %r, want %r' % (what, e, b))
    return ''


@cond(quick=dict(timeout=90, parts=dict(N=[0, 1])), thorough=dict(timeout=300, parts=dict(N=[0, 1])))
def binary_inverts(b: bytes, ba: bool) -> str:
    """
    pre: len(b) == P.N
    post: _ == ''
    """
    return verdict(_binary_inverts(b, ba, reenc=False))


def _one_byte(h, l_, ba):
    return _binary_inverts(bytes([16 * h + l_]), ba)


@cond(quick=dict(timeout=90), thorough=dict(timeout=120))
def binary_inverts_reencode_every_byte(h: int, l_: int, ba: bool) -> str:
    """
    pre: 0 <= h <= 15 and 0 <= l_ <= 15
    post: _ == ''
    """
    # every one-byte payload: decode its two wire forms, then encode the decoded packet for both channels in both orders
    return verdict(untraced(_one_byte, h, l_, ba))


@cond(quick=dict(S=4, B=3, timeout=90), thorough=dict(S=8, B=6, timeout=600))
def binary_inverts_seam(s: str, r: bytes, refuse: bool) -> str:
    """
    pre: len(s) <= P.S and len(r) <= P.B
    post: _ == ''
    """
    # text 'b'+s on a text-only channel: whatever the base64 decoder makes of s is the payload of a binary MESSAGE
    stub = _B64Seam(r, refuse)
    try:
        d = _with_b64(stub, lambda: packet.Packet(encoded_packet='b' + s))
    except ValueError:
        if not refuse:
            return verdict(fail(PROP, 'BINARY-B64-INVERT', 'decode refused although base64 accepted %r' % (s,)))
        return verdict('')
    if refuse:
        return verdict(fail(PROP, 'BINARY-B64-INVERT', 'decode(%r) accepted text the base64 decoder refuses' % ('b' + s,)))
    if not d.binary or d.packet_type != packet.MESSAGE or d.data != r:
        return verdict(fail(PROP, 'BINARY-B64-INVERT', 'decode(%r) -> %r/%r/%r want %r' % (
            'b' + s, d.binary, d.packet_type, d.data, r)))
    if [x for x, a, kw in stub.seen] != [s] or any(a or kw.get('validate') or kw.get('altchars') for x, a, kw in stub.seen):
        return verdict(fail(PROP, 'BINARY-B64-INPUT', 'decoder called with %r for %r' % (stub.seen, s)))
    return verdict('')


_B64_CONCRETE = (b'', b'\x00', b'\xff', b'ab', b'\x00\x01\x02', b'\xfb\xff\xbf', b'\x1e\x1e', b'>>>?', b'hello world',
                 bytes(range(256)))


@cond(quick=dict(timeout=60), thorough=dict(timeout=60))
def binary_inverts_table(k: int, ba: bool) -> str:
    """
    pre: 0 <= k < len(_B64_CONCRETE)
    post: _ == ''
    """
    return verdict(_binary_inverts(_B64_CONCRETE[k], ba))


# texts the base64 library accepts although they are not the standard encoding of their bytes (line-wrapped, trailing
# CRLF, non-zero trailing bits, surplus padding, embedded blanks)
_B64_NONCANON = ('AQIDBB==', 'AQID\nBA==', 'AQIDBA==\r\n', 'AQIDBA====', 'AQ ID BA==', 'AQIDBA==', '', 'AA==\n', '/+8=', '/+9=')


def _noncanon(k, first_b64):
    import base64
    s_ = _B64_NONCANON[k]
    try:
        want = base64.b64decode(s_)
    except ValueError:
        return ''
    d = packet.Packet(encoded_packet='b' + s_)
    if not d.binary or d.packet_type != packet.MESSAGE or d.data != want:
        return fail(PROP, 'BINARY-B64-INVERT', 'decode(%r) -> %r/%r/%r want %r' % ('b' + s_, d.binary, d.packet_type, d.data, want))
    txt = 'b' + ref_b64(want)
    for f in ((True, False, True) if first_b64 else (False, True, True)):
        e = d.encode(b64=f)
        if f and e != txt:
            return fail(PROP, 'BINARY-TEXT-CHANNEL', 'packet decoded from %r, encode(b64=True) = %r, want standard base64 %r' % ('b' + s_, e, txt))
        if not f and bytes(e) != want:
            return fail(PROP, 'BINARY-RAW-CHANNEL', 'packet decoded from %r, encode(b64=False) = %r, want %r' % ('b' + s_, e, want))
    return ''


@cond(quick=dict(timeout=60), thorough=dict(timeout=60))
def binary_noncanonical_table(k: int, first_b64: bool) -> str:
    """
    pre: 0 <= k < len(_B64_NONCANON)
    post: _ == ''
    """
    return verdict(_noncanon(k, first_b64))


_SHAPES = 6
_LEAVES = (0, -1, 7, 10 ** 30, -(2 ** 63), True, False, None, '', 'a', '\xe9', '"', '\\', '\n', '\x1e', '\u2028',
           '\U0001f600', 'b4', '\x00', '\x7f')
_KEYS = ('', 'k', '"', '\xe9\x1e')


def _shape(k, leaf, key, i):
    if k == 0:
        return {key: leaf}
    if k == 1:
        return [leaf, i]
    if k == 2:
        return {'k': [leaf]}
    if k == 3:
        return {}
    if k == 4:
        return []
    return {'a': leaf, key + 'x': [i, {'z': leaf}]}


@cond(quick=dict(timeout=120, parts=dict(K=list(range(_SHAPES)))),
      thorough=dict(timeout=600, parts=dict(K=list(range(_SHAPES)))))
def json_wire_real(t: int, k: int, l: int, kk: int, f: bool) -> str:
    """
    pre: 0 <= t <= 6 and k == P.K and 0 <= l < len(_LEAVES) and 0 <= kk < len(_KEYS)
    post: _ == ''
    """
    data = _shape(k, _LEAVES[l], _KEYS[kk], 3)
    p = packet.Packet(t, data)
    e = p.encode(b64=f)
    want = str(t) + ref_compact_json(data)
    if e != want:
        return verdict(fail(PROP, 'JSON-WIRE', 'encode(%r) = %r want %r' % (data, e, want)))
    e2 = p.encode(b64=not f)
    if e2 != want:
        return verdict(fail(PROP, 'JSON-WIRE-REPEAT', 'second encode = %r' % (e2,)))
    d = packet.Packet(encoded_packet=e)
    if d.packet_type != t or d.data != data or type(d.data) is not type(data) or d.binary:
        return verdict(fail(PROP, 'JSON-INVERT', 'decode(%r) -> %r %r' % (e, d.packet_type, d.data)))
    return verdict('')


class _DumpsSeam:
    """json seam: dumps() returns an arbitrary (symbolic) text and records how it was called."""
    def __init__(self, r):
        self.r = r
        self.calls = []

    def dumps(self, obj, *a, **kw):
        self.calls.append((obj, a, kw))
        return self.r
    loads = staticmethod(eio_json.loads)


@cond(quick=dict(S=5, timeout=90), thorough=dict(S=9, timeout=600))
def json_wire_seam(t: int, k: int, r: str, f1: bool, f2: bool, i: int) -> str:
    """
    pre: 0 <= t <= 6 and 0 <= k < _SHAPES and len(r) <= P.S
    post: _ == ''
    """
    # whatever text the JSON serialiser yields for the value, the wire form is the type digit followed by it,
    # and the serialiser is asked for the compact form of exactly the payload
    data = _shape(k, i, 'k', i)
    stub = _DumpsSeam(r)

    def go():
        p = packet.Packet(t, data)
        return p.encode(b64=f1), p.encode(b64=f2)
    e1, e2 = _with_json(stub, go)
    if e1 != str(t) + r or e2 != str(t) + r:
        return verdict(fail(PROP, 'JSON-WIRE', 'encodes %r, %r for serialiser output %r' % (e1, e2, r)))
    for obj, a, kw in stub.calls:
        if obj != data or a != () or kw != {'separators': (',', ':')}:
            return verdict(fail(PROP, 'JSON-COMPACT', 'serialiser called with %r %r %r' % (obj, a, kw)))
    if not stub.calls:
        return verdict(fail(PROP, 'JSON-WIRE', 'serialiser not used'))
    return verdict('')


# concrete JSON texts decoded by the REAL parser; the symbolic index makes the solver enumerate the table
LOOKALIKES = (
    # (payload text, expected decoded data or _TEXT for "stays text")
    ('{"a":1}', {'a': 1}), ('[1,"x"]', [1, 'x']), ('"str"', 'str'), ('1.5', 1.5), ('null', None),
    ('{}', {}), ('[]', []), ('""', ''), ('-0.0', -0.0), ('1e3', 1000.0), ('1E-2', 0.01),
    ('[[]]', [[]]), ('{"a":{"b":[null,true,1]}}', {'a': {'b': [None, True, 1]}}), (' {"a":1} ', {'a': 1}),
    ('"\\u00e9"', '\xe9'), ('[1.0]', [1.0]),
    ('1', 'T'), ('-0', 'T'), ('0', 'T'), ('12', 'T'), ('-5', 'T'), (' 12', 'T'), ('12 ', 'T'), ('12\n', 'T'), ('\t-3', 'T'),
    ('true', 'T'), ('false', 'T'), ('01', 'T'), ('1.', 'T'), ('.5', 'T'), ('+1', 'T'), ('0x10', 'T'),
    ('١', 'T'), ('١٢', 'T'), ('b', 'T'), ('bAAA', 'T'), ('hello', 'T'), ('{', 'T'), ('[1,', 'T'),
    ('"abc', 'T'), ("'a'", 'T'), ('nul', 'T'), ('None', 'T'), ('True', 'T'), ('1' * 100, 'T'), ('1' * 101, 'T'),
    ('-' + '1' * 101, 'T'), ('{"a":' + '1' * 101 + '}', 'T'), ('\x1e', 'T'), ('4', 'T'), ('', 'T'),
    ('1_0', 'T'), ('１２', 'T'), ('1 2', 'T'),
    # not JSON: a raw control character inside the quotes (a strict parser refuses these), NaN / Infinity spellings
    ('"a\tb"', 'T'), ('"line1\nline2"', 'T'), ('{"k":"a\tb"}', 'T'), ('["x\x00y"]', 'T'), ('"\x1f"', 'T'),
    ('{"a":1,}', 'T'), ('[1,]', 'T'), ("{'a':1}", 'T'), ('{"a":1}x', 'T'), ('\ufeff{"a":1}', 'T'),
)


@cond(quick=dict(timeout=120), thorough=dict(timeout=300))
def lookalike_real_parser(t: int, k: int) -> str:
    """
    pre: 0 <= t <= 6 and 0 <= k < len(LOOKALIKES)
    post: _ == ''
    """
    text, want = LOOKALIKES[k]
    d = packet.Packet(encoded_packet=str(t) + text)
    exp = text if (isinstance(want, str) and want == 'T') else want
    same = (d.data == exp) and (type(d.data) is type(exp))
    if d.packet_type != t or not same or d.binary:
        return verdict(fail(PROP, 'LOOKALIKE', 'decode(%r) -> type %r data %r (%s), want %r' % (
            str(t) + text, d.packet_type, d.data, type(d.data).__name__, exp)))
    return verdict('')


@cond(quick=dict(S=4, timeout=90), thorough=dict(S=8, timeout=600))
def lookalike_seam(t: int, k: int, s: str) -> str:
    """
    pre: 0 <= t <= 6 and 0 <= k < len(_OUTCOMES) and len(s) <= P.S
    post: _ == ''
    """
    stub = _OutcomeJson(k)
    d = _with_json(stub, lambda: packet.Packet(encoded_packet=str(t) + s))
    o = _OUTCOMES[k]
    if not stub.seen:
        # the parser was not consulted for this text (e.g. a fast path): then the text must stay text; that JSON
        # literals are recognised at all is the job of lookalike_real_parser
        exp = s
    elif o is ValueError or isinstance(o, int):    # parser failed / integer-looking (bool is an int in Python)
        exp = s
    else:
        exp = o
    ok = d.packet_type == t and not d.binary and d.data == exp and type(d.data) is type(exp)
    if not ok:
        return verdict(fail(PROP, 'LOOKALIKE-RULE', 'payload %r parsed by json as %r -> data %r (type %s)' % (
            s, o, d.data, type(d.data).__name__)))
    if stub.seen and stub.seen != [s]:
        # if the parser is consulted it must be given exactly the payload text
        return verdict(fail(PROP, 'LOOKALIKE-PARSER-INPUT', 'parser was given %r for payload %r' % (stub.seen, s)))
    return verdict('')


@cond(quick=dict(timeout=60), thorough=dict(timeout=120))
def safe_int(n: int, neg: bool, d: int) -> str:
    """
    pre: (1 <= n <= 3 or 97 <= n <= 104) and 1 <= d <= 9
    post: _ == ''
    """
    lit = ('-' if neg else '') + str(d) * n
    try:
        v = eio_json.loads(lit)
    except ValueError:
        v = ValueError
    if len(lit) > 100:
        if v is not ValueError:
            return verdict(fail(PROP, 'SAFE-INT', 'integer literal of %d chars parsed' % len(lit)))
    else:
        if v is ValueError or v != int(lit):
            return verdict(fail(PROP, 'SAFE-INT', 'integer literal of %d chars -> %r' % (len(lit), v)))
    return verdict('')


@cond(quick=dict(B=3, timeout=60), thorough=dict(B=6, timeout=300))
def binary_only_message(t: int, b: bytes, ba: bool) -> str:
    """
    pre: 0 <= t <= 6 and len(b) <= P.B
    post: _ == ''
    """
    data = bytearray(b) if ba else b
    try:
        p = packet.Packet(t, data)
    except ValueError:
        if t == packet.MESSAGE:
            return verdict(fail(PROP, 'BINARY-MESSAGE-REFUSED', 'bytes refused for MESSAGE'))
        return verdict('')
    if t != packet.MESSAGE:
        return verdict(fail(PROP, 'BINARY-NON-MESSAGE', 'Packet(%d, %r) accepted' % (t, data)))
    if not p.binary:
        return verdict(fail(PROP, 'BINARY-FLAG', 'not binary'))
    return verdict('')


_FIRST = ('', 'b', '0', '1', '2', '3', '4', '5', '6', '7', '8', '9', '\u0661', '\u0664', '\u096a', '\uff14', 'x', 'B',
          ' ', '-', '+', '\x1e', '"', '{')


@cond(quick=dict(S=3, timeout=120), thorough=dict(S=6, timeout=900))
def decoded_binary_is_message(k: int, tail: str, r: bytes, refuse: bool) -> str:
    """
    pre: 0 <= k < len(_FIRST) and len(tail) <= P.S and len(r) <= 2 and (k > 0 or len(tail) == 0)
    post: _ == ''
    """
    s = _FIRST[k] + tail
    # any text at all (never-JSON seam and base64 seam: neither outcome may influence binary/type consistency)
    try:
        d = _with_b64(_B64Seam(r, refuse), lambda: _with_json(_NeverJson, lambda: packet.Packet(encoded_packet=s)))
    except Exception:  # noqa  (a decoder may refuse: the claim is about what it reports when it accepts)
        return verdict('')
    if d.binary and d.packet_type != packet.MESSAGE:
        return verdict(fail(PROP, 'DECODED-BINARY-TYPE', 'decode(%r) binary with type %r' % (s, d.packet_type)))
    if d.binary and not isinstance(d.data, (bytes, bytearray)):
        return verdict(fail(PROP, 'DECODED-BINARY-DATA', 'decode(%r) binary with %s data' % (s, type(d.data).__name__)))
    if not d.binary and isinstance(d.data, (bytes, bytearray)):
        return verdict(fail(PROP, 'DECODED-BINARY-DATA', 'decode(%r) bytes data but not flagged binary' % (s,)))
    return verdict('')


@cond(quick=dict(B=3, timeout=60), thorough=dict(B=6, timeout=300))
def decoded_bytes_is_message(b: bytes, ba: bool) -> str:
    """
    pre: len(b) <= P.B
    post: _ == ''
    """
    d = packet.Packet(encoded_packet=bytearray(b) if ba else b)
    if not d.binary or d.packet_type != packet.MESSAGE or d.data != b:
        return verdict(fail(PROP, 'DECODED-BINARY-TYPE', 'decode(%r) -> %r %r %r' % (b, d.binary, d.packet_type, d.data)))
    return verdict('')
