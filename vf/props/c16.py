"""C16 Session table hygiene: dead ids are inert, sessions isolated, nothing leaks."""
import inspect

from vf.rt import P, cond, verdict, fail, untraced
from vf.props.common import mk, packets_of, WsPeer, SIM_STUBS, SIM_OUTSIDE, blocked_in_close_join
from vf.props.c07 import _Client

PROP = 'C16'
EXPLANATION = ('Whole-server level, both servers, client monitoring ON: up to three sessions, each with a fate chosen by a '
               'solver-enumerated selector (stays alive on polling / WebSocket / after an upgrade, rejected at connect, ended by '
               'CLOSE packet, disconnect(sid), WebSocket drop or protocol error, client vanishing silently, mid-poll, mid-upgrade '
               'before the probe or after it - with the socket reported closed or silently, never reported), user data saved per session; then the virtual clock runs for a bounded number of '
               'monitor sweeps and the session table, the API results for every id and the visibility of user data are compared '
               'with the harness\'s own bookkeeping.')
STUBS = SIM_STUBS
OUTSIDE = SIM_OUTSIDE + ['more than 3 sessions', 'fates outside the table', 'heartbeat settings other than ping_interval=2, ping_timeout=1']
NOT_CONSTRAINED = ['how many sweeps exactly are needed (the bound used is ping_interval + 3 x ping_timeout after the last sign of '
                   'life plus two sweeps)']
ASSUMPTIONS = ['cooperative scheduling only; virtual integer time']

FATES = ('live-polling', 'live-websocket', 'live-upgraded', 'rejected', 'close-packet', 'disconnect-sid', 'ws-drop', 'protocol-error',
         'vanish-silent', 'vanish-mid-poll', 'vanish-before-probe', 'vanish-after-probe', 'close-packet-ws', 'absent',
         'close-then-request-cancelled', 'silent-before-probe', 'silent-after-probe', 'vanish-then-disconnect-sid')
LIVE = ('live-polling', 'live-websocket', 'live-upgraded')
PI, PT = 2, 1


def _session_cm(sut, sid):
    """Enter the session() context manager the way an application would."""
    cm = sut.srv.session(sid)
    if hasattr(cm, '__aenter__'):
        return sut.api_coro(cm.__aenter__())
    return sut.api_call(cm.__enter__)


def _hygiene(fl, f0, f1, f2, order):
    sut = mk(fl, async_handlers=False, ping_interval=PI, ping_timeout=PT, monitor_clients=True)
    try:
        fates = [FATES[f0], FATES[f1], FATES[f2]]
        clients, sids, accepted = [], [], []
        st = dict(flavour=sut.flavour, fates=repr(fates), after_disconnect_all=bool(order))
        if order:
            # earlier in the life of this server: one WebSocket client connected and the application then called disconnect()
            # for everybody (the monitor is already running when the sessions of this history arrive)
            c0 = _Client(sut, True)
            sut.run(until=sut.k.now + 1)
            sut.app_disconnect()
            sut.settle()
            c0.peer.close()
            sut.settle()
            sut.run(until=sut.k.now + 1)
            if sut.srv.sockets:
                return fail(PROP, 'TABLE-CONTENT', 'after disconnect() for all sessions the table holds %d sessions' % len(sut.srv.sockets), **st)
            del sut.events[:]
        for i, fate in enumerate(fates):
            if fate == 'absent':
                clients.append(None)
                sids.append(None)
                continue
            if fate == 'rejected':
                sut.connect_result = False
                r = sut.open('polling')
                sut.settle()
                sut.connect_result = None
                sids.append(sut.sids()[-1])
                clients.append(None)
                continue
            ws = fate in ('live-websocket', 'ws-drop', 'close-packet-ws')
            cl = _Client(sut, ws)
            clients.append(cl)
            sids.append(cl.sid)
            # user data, saved through the public API
            a = sut.api('save_session', cl.sid, {'owner': i})
            sut.settle()
            if a.exc is not None:
                return fail(PROP, 'SAVE-SESSION', 'save_session on a live session raised %r' % (a.exc,), **st)
        # ---- apply the fates
        upg = {}
        for i, fate in enumerate(fates):
            cl = clients[i]
            if cl is None:
                continue
            if fate in ('live-upgraded', 'vanish-before-probe', 'vanish-after-probe', 'silent-before-probe', 'silent-after-probe'):
                u = sut.ws_upgrade(cl.sid)
                sut.settle()
                if fate not in ('vanish-before-probe', 'silent-before-probe'):
                    u.peer.send('2probe')
                    sut.settle()
                if fate == 'live-upgraded':
                    u.peer.send('5')
                    sut.settle()
                    cl.ws, cl.peer, cl.seen, cl.poll = True, u.peer, len(u.peer.frames), None
                elif fate.startswith('silent-'):
                    # the client vanishes without the WebSocket ever being reported closed (no FIN, no disconnect event):
                    # the upgrade handshake simply never continues
                    cl.poll = None
                else:
                    u.peer.close()
                    sut.settle()
                    cl.poll = None
            elif fate == 'close-packet':
                sut.post(cl.sid, '1')
                sut.settle()
            elif fate == 'close-then-request-cancelled':
                # the client POSTs CLOSE and drops the connection; the web server cancels the task serving the request
                # while the application's (coroutine) disconnect handler is still awaiting
                if fl == 1:
                    log = sut.events

                    async def slow_disconnect(sid, reason):
                        log.append(('disconnect', sid, reason))
                        await sut.shim.sleep(1)
                    sut.srv.on('disconnect', slow_disconnect)
                # no poll of this client is in flight when it goes away (the one it had open is answered first)
                sut.app_send(cl.sid, 'flush')
                sut.settle()
                cl.poll = None
                r = sut.post(cl.sid, '1')
                sut.settle()
                if fl == 1 and not r.done:
                    r.task.cancel()
                    sut.settle()
            elif fate == 'close-packet-ws':
                cl.peer.send('1')
                sut.settle()
                cl.peer.close()
                sut.settle()
            elif fate == 'disconnect-sid':
                sut.app_disconnect(cl.sid)
                sut.settle()
            elif fate == 'vanish-then-disconnect-sid':
                # the client is already gone (its last poll was answered, it never polls again) when the application
                # disconnects the session: nobody will ever collect the CLOSE packet
                sut.app_send(cl.sid, 'flush')
                sut.settle()
                cl.poll = None
                sut.app_disconnect(cl.sid)
                sut.settle()
            elif fate == 'ws-drop':
                cl.peer.close()
                sut.settle()
            elif fate == 'protocol-error':
                sut.post(cl.sid, '8')
                sut.settle()
            elif fate == 'vanish-silent':
                cl.poll = None
            elif fate == 'vanish-mid-poll':
                pass            # its poll stays pending, nobody reads the answer, nothing else ever comes
        alive = [i for i, f in enumerate(fates) if f in LIVE]
        # ---- let the monitor work: bound = interval + 3*timeout after the last sign of life, plus two sweeps
        horizon = sut.k.now + PI + 3 * PT + 2 * PT + 2
        while sut.k.now < horizon:
            sut.run(until=sut.k.now + 1)
            for i in alive:
                cl = clients[i]
                n = len([1 for t, ty in cl.rx if ty == 2])
                cl.collect()
                if len([1 for t, ty in cl.rx if ty == 2]) > n:
                    cl.pong()
        # ---- the table holds exactly the live sessions
        want = sorted(sids[i] for i in alive)
        have = sorted(sut.srv.sockets.keys())
        hung = any(blocked_in_close_join(t) for t in sut.k.blocked())
        if have != want:
            return fail(PROP, 'TABLE-CONTENT', 'after %d s of sweeps the table holds %d sessions, %d are live (fates %r; extra: %r, missing: %r)' % (
                horizon - 1000, len(have), len(want), fates, [fates[sids.index(s)] for s in have if s not in want and s in sids],
                [fates[sids.index(s)] for s in want if s not in have]), **st)
        # ---- API on every id
        n_events = len(sut.events)
        for i, fate in enumerate(fates):
            sid = sids[i]
            if sid is None:
                sid = 'never-issued-%d' % i
            if fate in LIVE:
                a = sut.api('get_session', sid)
                sut.settle()
                if a.exc is not None or a.ret != {'owner': i}:
                    return fail(PROP, 'SESSION-DATA', 'live session %d: get_session -> %r / %r' % (i, a.ret, a.exc), **st)
                t = sut.api('transport', sid)
                sut.settle()
                wt = 'polling' if fate == 'live-polling' else 'websocket'
                if t.exc is not None or t.ret != wt:
                    return fail(PROP, 'TRANSPORT-API', 'live session %d (%s): transport() -> %r / %r' % (i, fate, t.ret, t.exc), **st)
                continue
            for name, args in (('get_session', (sid,)), ('save_session', (sid, {'x': 1})), ('transport', (sid,))):
                a = sut.api(name, *args)
                sut.settle()
                if not isinstance(a.exc, KeyError):
                    return fail(PROP, 'DEAD-ID-API', '%s(%s id) -> returned %r / raised %r, expected KeyError' % (name, fate, a.ret, a.exc), **st)
            try:
                cm = sut.srv.session(sid)
                if hasattr(cm, '__aenter__'):
                    co = cm.__aenter__()
                    try:
                        co.send(None)
                        entered = True
                    except StopIteration:
                        entered = True
                    except KeyError:
                        entered = False
                else:
                    cm.__enter__()
                    entered = True
            except KeyError:
                entered = False
            if entered:
                return fail(PROP, 'DEAD-ID-API', 'session(%s id) could be entered' % fate, **st)
            s = sut.app_send(sid, 'to-nobody')
            sut.settle()
            if not s.done or s.exc is not None:
                return fail(PROP, 'DEAD-ID-SEND', 'send(%s id): done=%s exc=%r' % (fate, s.done, s.exc), **st)
        if len(sut.events) != n_events:
            return fail(PROP, 'DEAD-ID-SEND', 'API calls on dead ids produced events %r' % (sut.events[n_events:],), **st)
        # ---- live sessions untouched by all of that; their data is still only theirs
        for i in alive:
            a = sut.api('get_session', sids[i])
            sut.settle()
            if a.ret != {'owner': i}:
                return fail(PROP, 'SESSION-ISOLATION', 'session %d now sees %r' % (i, a.ret), **st)
        # a session opened now starts with empty data (nothing of a dead session leaks into it)
        cl = _Client(sut, False)
        a = sut.api('get_session', cl.sid)
        sut.settle()
        if a.ret != {}:
            return fail(PROP, 'SESSION-ISOLATION', 'a new session starts with user data %r' % (a.ret,), **st)
        return ''
    finally:
        sut.close()


@cond(quick=dict(FULL=0, timeout=170, parts=dict(FL=[0, 1], F0=[0, 1, 2, 3, 4, 5, 6, 7, 8, 9, 10, 11, 12, 14, 15, 16, 17])),
      thorough=dict(FULL=1, timeout=900, parts=dict(FL=[0, 1], F0=[0, 1, 2, 3, 4, 5, 6, 7, 8, 9, 10, 11, 12, 14, 15, 16, 17])))
def table_after_history(fl: int, f0: int, f1: int, f2: int, prior: bool) -> str:
    """
    pre: fl == P.FL and f0 == P.F0 and 0 <= f1 < len(FATES) and 0 <= f2 < len(FATES) and (f1 != 13 or f2 == 13)
    pre: not prior or f2 == 13 or P.FULL == 1
    post: _ == ''
    """
    return verdict(untraced(_hygiene, fl, f0, f1, f2, 1 if prior else 0))


from vf.validate.stubs import ALL as VALIDATE  # noqa: E402  (stub-vs-real conformance, run before the obligations)
