"""C10 This package's clients and servers interoperate without loss or disagreement."""
from vf.rt import P, cond, verdict, fail, untraced
from vf.simenv.kernel import Kernel
from vf.simenv.threaded import ThreadedSut
from vf.simenv.aio import AsyncSut
from vf.simenv.clients import ThreadedClientSut, AsyncClientSut, ServerPeer
from vf.props.common import SIM_STUBS, SIM_OUTSIDE, blocked_in_close_join

PROP = 'C10'
EXPLANATION = ('A REAL client of this package (Client or AsyncClient, through the http_session= seam and stubbed requests / '
               'websocket-client / aiohttp transports) talks to a REAL server of this package (Server through WSGI, AsyncServer through '
               'the real ASGI driver) inside one kernel; greenlet and coroutine tasks are mixed. Pair, transports, burst sizes in both '
               'directions, payload kinds, idle heartbeat cycles and who disconnects are solver-enumerated selectors. Added later: WebSocket '
               'back-pressure (the client stops reading while the server application sends, then every write is a scheduling point), a '
               'client object used for two connections in a row (the first ended cleanly or with a POST still in flight on a slow network), '
               'and the conversation being the 62nd-64th session the server object has issued.')
STUBS = SIM_STUBS + ['client side: requests.Session / websocket.create_connection / aiohttp session replaced by stubs that open request '
                     'tasks on the server in the same kernel; Client.start_background_task/create_queue/create_event/sleep overridden '
                     'with kernel-backed equivalents; module global asyncio of async_client = shim']
OUTSIDE = SIM_OUTSIDE + ['bursts above the stated bound', 'more than 5 sends while the client is not reading (back-pressure condition)', 'more than one client', 'real network, TLS, proxies, cookies']
NOT_CONSTRAINED = ['the disconnect reason each side reports', 'order between server->client messages and the handler tasks the threaded '
                   'client starts for them (handlers run as background tasks: compared as multisets there)']
ASSUMPTIONS = ['cooperative scheduling only; virtual integer time']

TRANSPORTS = (['polling'], ['websocket'], None)
PI, PT = 3, 2


def _payload(tag, i):
    k = i % 3
    if k == 0:
        return '%s%d' % (tag, i)
    if k == 1:
        return {'from': tag, 'n': i}
    return ('%s%d' % (tag, i)).encode('ascii')


def _interop(sfl, cfl, ti, n_c2s, n_s2c, idle, who, connect_send, prior=0):
    k = Kernel()
    srv = (ThreadedSut if sfl == 0 else AsyncSut)(k=k, async_handlers=False, ping_interval=PI, ping_timeout=PT)
    cl = (ThreadedClientSut if cfl == 0 else AsyncClientSut)(k, ServerPeer(srv))
    st = dict(server=srv.flavour, client=cl.flavour, transports=repr(TRANSPORTS[ti]))
    try:
        if connect_send:
            # the server greets from its connect handler (rides on the handshake response next to OPEN)
            srv.connect_greeting = True
            orig = srv.srv.handlers['connect']

            def greeting_connect(sid, environ):
                r = orig(sid, environ)
                if sfl == 0:
                    srv.srv.send(sid, 'greeting')
                else:
                    k.spawn_coro(srv.srv.send(sid, 'greeting'))
                return r
            srv.srv.handlers['connect'] = greeting_connect
        # ``prior``: sessions this server object has already issued (other clients), so that the conversation below is its
        # (prior+1)-th session
        for _ in range(prior):
            srv.open('polling')
            k.settle()
        if prior:
            st['nth_session'] = prior + 1
            del srv.events[:]
        h = cl.call('connect', 'http://h.example', transports=TRANSPORTS[ti])
        k.settle()
        if h.exc is not None or cl.state() != 'connected':
            return fail(PROP, 'CONNECT', 'connect: %r state %s' % (h.exc, cl.state()), **st)
        if [e for e in cl.events if e[0] == 'connect'] != [('connect', None)] or len(srv.sids()) != 1:
            return fail(PROP, 'CONNECT-ONCE', 'client events %r, server sessions %d' % (cl.events, len(srv.sids())), **st)
        sid = srv.sids()[0]
        want_tr = 'polling' if ti == 0 else 'websocket'
        if cl.c.transport() != want_tr or srv.transport(sid) != want_tr:
            return fail(PROP, 'TRANSPORT-AGREEMENT', 'client on %s, server on %s, expected %s' % (cl.c.transport(), srv.transport(sid), want_tr), **st)
        # bursts in both directions, interleaved
        for i in range(max(n_c2s, n_s2c)):
            if i < n_c2s:
                cl.call('send', _payload('c', i))
            if i < n_s2c:
                srv.app_send(sid, _payload('s', i))
        k.settle()
        k.run(until=k.now + 1)
        # idle heartbeat cycles
        k.run(until=k.now + idle * (PI + 1))
        got_s = [a for kk, s, a in srv.events if kk == 'message']
        got_c = [a for kk, a in cl.events if kk == 'message']
        want_s = [_payload('c', i) for i in range(n_c2s)]
        want_c = (['greeting'] if connect_send else []) + [_payload('s', i) for i in range(n_s2c)]
        if got_s != want_s:
            return fail(PROP, 'CLIENT-TO-SERVER', 'client sent %d messages, server received %d: %r' % (n_c2s, len(got_s), got_s[:6]), **st)
        ordered = cfl == 1
        if (got_c != want_c) if ordered else (sorted(map(repr, got_c)) != sorted(map(repr, want_c))):
            return fail(PROP, 'SERVER-TO-CLIENT', 'server sent %r, client received %r' % (want_c[:6], got_c[:6]), **st)
        if [e for e in cl.events if e[0] == 'disconnect'] or [1 for kk, s, a in srv.events if kk == 'disconnect']:
            return fail(PROP, 'IDLE-CONNECTION-DROPPED', 'after %d idle heartbeat cycles: client %r server %r' % (
                idle, [e for e in cl.events if e[0] == 'disconnect'], [a for kk, s, a in srv.events if kk == 'disconnect']), **st)
        # disconnect
        if who == 0:
            d = cl.call('disconnect')
        else:
            d = srv.app_disconnect(sid)
        k.settle()
        k.run(until=k.now + PI + PT + 2)
        dc = [e for e in cl.events if e[0] == 'disconnect']
        ds = [a for kk, s, a in srv.events if kk == 'disconnect']
        if len(dc) != 1 or len(ds) != 1:
            return fail(PROP, 'DISCONNECT-BOTH-SIDES', '%s disconnects: client saw %r, server saw %r' % (
                'client' if who == 0 else 'server', dc, ds), **st)
        if cl.state() != 'disconnected':
            return fail(PROP, 'CLIENT-STATE', 'client state %s after the disconnect' % cl.state(), **st)
        return ''
    finally:
        cl.close()
        srv.close()


@cond(quick=dict(N=20, timeout=170, parts=dict(S=[0, 1], C=[0, 1], T=[0, 1, 2])),
      thorough=dict(N=40, timeout=1200, parts=dict(S=[0, 1], C=[0, 1], T=[0, 1, 2])))
def conversation(sfl: int, cfl: int, ti: int, n_c2s: int, n_s2c: int, idle: int, who: int, connect_send: bool) -> str:
    """
    pre: sfl == P.S and cfl == P.C and ti == P.T and 0 <= n_c2s <= P.N and 0 <= n_s2c <= P.N and 0 <= idle <= 3 and 0 <= who <= 1
    pre: (n_c2s <= 2 or n_s2c == 0) and (n_s2c <= 2 or n_c2s == 0) and (idle == 0 or (n_c2s <= 1 and n_s2c <= 1))
    pre: (not connect_send) or (n_c2s <= 1 and n_s2c <= 1 and idle == 0)
    post: _ == ''
    """
    return verdict(untraced(_interop, sfl, cfl, ti, n_c2s, n_s2c, idle, who, connect_send))


def _nth(sfl, cfl, ti, pi_, who):
    return _interop(sfl, cfl, ti, 1, 1, 0, who, False, PRIORS[pi_])


PRIORS = (61, 62, 63, 64 * 62 + 62)


@cond(quick=dict(NP=3, timeout=170, parts=dict(S=[0, 1])), thorough=dict(NP=4, timeout=900, parts=dict(S=[0, 1])))
def nth_session_of_a_server(sfl: int, cfl: int, ti: int, pi_: int, who: int) -> str:
    """
    pre: sfl == P.S and 0 <= cfl <= 1 and 0 <= ti <= 2 and 0 <= pi_ < P.NP and 0 <= who <= 1
    post: _ == ''
    """
    # the conversation is the 62nd, 63rd, 64th (thorough: also the 4031st) session the server object has issued (session ids carry a
    # counter: every 6-bit group of it takes the values 61, 62, 63 here)
    return verdict(untraced(_nth, sfl, cfl, ti, pi_, who))


def _empty_binary(sfl, cfl, ti):
    """Both sides send a message whose payload is the empty byte string, then an ordinary one."""
    k = Kernel()
    srv = (ThreadedSut if sfl == 0 else AsyncSut)(k=k, async_handlers=False, ping_interval=PI, ping_timeout=PT)
    cl = (ThreadedClientSut if cfl == 0 else AsyncClientSut)(k, ServerPeer(srv))
    st = dict(server=srv.flavour, client=cl.flavour, transports=repr(TRANSPORTS[ti]), payload="b''")
    try:
        h = cl.call('connect', 'http://h.example', transports=TRANSPORTS[ti])
        k.settle()
        if h.exc is not None or cl.state() != 'connected':
            return fail(PROP, 'CONNECT', 'connect: %r state %s' % (h.exc, cl.state()), **st)
        sid = srv.sids()[0]
        for d in (b'', 'c-after'):
            cl.call('send', d)
            k.settle()
        for d in (b'', 's-after'):
            srv.app_send(sid, d)
            k.settle()
        k.run(until=k.now + 1)
        got_s = [a for kk, s_, a in srv.events if kk == 'message']
        got_c = [a for kk, a in cl.events if kk == 'message']
        if got_s != [b'', 'c-after']:
            return fail(PROP, 'CLIENT-TO-SERVER', "client sent b'' and 'c-after', server received %r" % (got_s,), **st)
        if sorted(map(repr, got_c)) != sorted(map(repr, [b'', 's-after'])):
            return fail(PROP, 'SERVER-TO-CLIENT', "server sent b'' and 's-after', client received %r" % (got_c,), **st)
        if [e for e in cl.events if e[0] == 'disconnect'] or [1 for kk, s_, a in srv.events if kk == 'disconnect']:
            return fail(PROP, 'SPURIOUS-DISCONNECT', 'an empty binary message ended the connection: client %r server %r' % (
                [e for e in cl.events if e[0] == 'disconnect'], [a for kk, s_, a in srv.events if kk == 'disconnect']), **st)
        return ''
    finally:
        cl.close()
        srv.close()


@cond(quick=dict(timeout=60), thorough=dict(timeout=120))
def empty_binary_both_ways(sfl: int, cfl: int, ti: int) -> str:
    """
    pre: 0 <= sfl <= 1 and 0 <= cfl <= 1 and 0 <= ti <= 2
    post: _ == ''
    """
    return verdict(untraced(_empty_binary, sfl, cfl, ti))


def _backpressure(sfl, cfl, ti, n_during, who, c0=0, c1=0):
    """WebSocket in use (directly or after the upgrade). The client stops reading for a while (network back-pressure: the
    server's write of the next frame does not complete), the server application keeps sending and then one side
    disconnects; the client resumes reading. Everything sent while connected arrives once, in order."""
    k = Kernel()
    srv = (ThreadedSut if sfl == 0 else AsyncSut)(k=k, async_handlers=False, ping_interval=PI, ping_timeout=PT)
    sp = ServerPeer(srv)
    cl = (ThreadedClientSut if cfl == 0 else AsyncClientSut)(k, sp)
    st = dict(server=srv.flavour, client=cl.flavour, transports=repr(TRANSPORTS[ti]), backpressure=True)
    try:
        h = cl.call('connect', 'http://h.example', transports=TRANSPORTS[ti])
        k.settle()
        if h.exc is not None or cl.state() != 'connected' or cl.c.transport() != 'websocket':
            return fail(PROP, 'CONNECT', 'connect: %r state %s transport %s' % (h.exc, cl.state(), cl.c.transport()), **st)
        sid = srv.sids()[0]
        peer = sp.links[-1][1].peer
        srv.app_send(sid, _payload('s', 0))
        k.settle()
        peer.paused = True
        peer.slow = True            # after the pause every write of the server is a scheduling point
        k.choices = [c0, c1]        # the next two scheduling decisions among ready tasks (writer vs sender) are selectors
        for i in range(1, 1 + n_during):
            srv.app_send(sid, _payload('s', i))
            k.settle()
        d = None
        if who == 1:
            d = srv.app_disconnect(sid)
            k.settle()
        peer.paused = False
        k.settle()
        k.run(until=k.now + 1)
        if who == 0:
            d = cl.call('disconnect')
            k.settle()
        k.run(until=k.now + PI + PT + 2)
        got_c = [a for kk, a in cl.events if kk == 'message']
        want_c = [_payload('s', i) for i in range(1 + n_during)]
        ordered = cfl == 1
        if (got_c != want_c) if ordered else (sorted(map(repr, got_c)) != sorted(map(repr, want_c))):
            return fail(PROP, 'SERVER-TO-CLIENT', 'server sent %r while connected (the client was not reading for a while), client '
                        'received %r' % (want_c[:8], got_c[:8]), **st)
        dc = [e for e in cl.events if e[0] == 'disconnect']
        ds = [a for kk, s, a in srv.events if kk == 'disconnect']
        if len(dc) != 1 or len(ds) != 1:
            return fail(PROP, 'DISCONNECT-BOTH-SIDES', '%s disconnects: client saw %r, server saw %r' % (
                'client' if who == 0 else 'server', dc, ds), **st)
        return ''
    finally:
        cl.close()
        srv.close()


@cond(quick=dict(timeout=120), thorough=dict(timeout=300))
def backpressure(sfl: int, cfl: int, ti: int, n_during: int, who: int, c0: int, c1: int) -> str:
    """
    pre: 0 <= sfl <= 1 and 0 <= cfl <= 1 and 1 <= ti <= 2 and 0 <= n_during <= 5 and 0 <= who <= 1 and 0 <= c0 <= 1 and 0 <= c1 <= 1
    post: _ == ''
    """
    return verdict(untraced(_backpressure, sfl, cfl, ti, n_during, who, c0, c1))


def _reuse(sfl, cfl, busy, n2):
    """The SAME client object is used for two connections in a row. The first ends by disconnect() - with ``busy`` while a
    POST of the client is still in flight (slow network). On the second connection everything sent by either side arrives
    exactly once, nothing is sent that the application did not send, and nobody is disconnected until someone asks."""
    k = Kernel()
    srv = (ThreadedSut if sfl == 0 else AsyncSut)(k=k, async_handlers=False, ping_interval=PI, ping_timeout=PT)
    sp = ServerPeer(srv)
    cl = (ThreadedClientSut if cfl == 0 else AsyncClientSut)(k, sp)
    st = dict(server=srv.flavour, client=cl.flavour, busy=bool(busy), reuse=True)
    try:
        h = cl.call('connect', 'http://h.example', transports=['polling'])
        k.settle()
        if h.exc is not None or cl.state() != 'connected':
            return fail(PROP, 'CONNECT', 'connect: %r state %s' % (h.exc, cl.state()), **st)
        if busy:
            sp.hold_posts = True
        sid1 = srv.sids()[0]
        cl.call('send', 'first')
        k.settle()
        cl.call('send', 'second')
        k.settle()
        cl.call('disconnect')
        k.settle()
        sp.hold_posts = False
        k.settle()
        k.run(until=k.now + PI + PT + 2)
        dc = [e for e in cl.events if e[0] == 'disconnect']
        if len(dc) != 1 or cl.state() != 'disconnected':
            return fail(PROP, 'DISCONNECT-BOTH-SIDES', 'first connection: client saw %r, state %s' % (dc, cl.state()), **st)
        got1 = [a for kk, s_, a in srv.events if kk == 'message' and s_ == sid1]
        if got1 != ['first', 'second']:
            return fail(PROP, 'CLIENT-TO-SERVER', 'the client sent "first" and "second" and then disconnected%s: the server received %r' % (
                ' (the POST of "first" was still in flight at that moment)' if busy else '', got1), **st)
        ds1 = [a for kk, s_, a in srv.events if kk == 'disconnect' and s_ == sid1]
        if len(ds1) != 1:
            return fail(PROP, 'DISCONNECT-BOTH-SIDES', 'the client disconnected%s: the server observed %r' % (
                ' while a POST was in flight' if busy else '', ds1), **st)
        n_srv, n_cl = len(srv.events), len(cl.events)
        h = cl.call('connect', 'http://h.example', transports=['polling'])
        k.settle()
        if h.exc is not None or cl.state() != 'connected':
            return fail(PROP, 'CONNECT', 'second connect of the same client: %r state %s' % (h.exc, cl.state()), **st)
        sid2 = srv.sids()[-1]
        for i in range(n2):
            cl.call('send', _payload('c', i))
            k.settle()
        srv.app_send(sid2, 'down')
        k.settle()
        k.run(until=k.now + 1)
        got_s = [a for kk, s_, a in srv.events[n_srv:] if kk == 'message' and s_ == sid2]
        got_c = [a for kk, a in cl.events[n_cl:] if kk == 'message']
        early = [e for e in cl.events[n_cl:] if e[0] == 'disconnect'] + [a for kk, s_, a in srv.events[n_srv:] if kk == 'disconnect' and s_ == sid2]
        if early:
            return fail(PROP, 'SPURIOUS-DISCONNECT', 'second connection of a reused client ended although nobody disconnected: %r' % (early,), **st)
        if got_s != [_payload('c', i) for i in range(n2)]:
            return fail(PROP, 'CLIENT-TO-SERVER', 'second connection: client sent %d messages, server received %r' % (n2, got_s), **st)
        if got_c != ['down']:
            return fail(PROP, 'SERVER-TO-CLIENT', 'second connection: client received %r' % (got_c,), **st)
        k.run(until=k.now + 2 * (PI + 1))
        early = [e for e in cl.events[n_cl:] if e[0] == 'disconnect']
        if early:
            return fail(PROP, 'IDLE-CONNECTION-DROPPED', 'second connection dropped while idle: %r' % (early,), **st)
        cl.call('disconnect')
        k.settle()
        k.run(until=k.now + PI + PT + 2)
        dc = [e for e in cl.events[n_cl:] if e[0] == 'disconnect']
        ds = [a for kk, s_, a in srv.events[n_srv:] if kk == 'disconnect' and s_ == sid2]
        if len(dc) != 1 or len(ds) != 1:
            return fail(PROP, 'DISCONNECT-BOTH-SIDES', 'second connection, client disconnects: client saw %r, server saw %r' % (dc, ds), **st)
        return ''
    finally:
        cl.close()
        srv.close()


@cond(quick=dict(timeout=120), thorough=dict(timeout=300))
def reused_client(sfl: int, cfl: int, busy: bool, n2: int) -> str:
    """
    pre: 0 <= sfl <= 1 and 0 <= cfl <= 1 and 0 <= n2 <= 3
    post: _ == ''
    """
    return verdict(untraced(_reuse, sfl, cfl, busy, n2))


from vf.validate.stubs import ALL as VALIDATE  # noqa: E402  (stub-vs-real conformance, run before the obligations)


class _SeamJson:
    """json seam: only the OPEN packet of the handshake parses as JSON; every other text stays text."""
    @staticmethod
    def loads(s, **kw):
        from engineio import json as _j
        if s[:8] == '{"sid":"' and len(s) > 40:
            return _j.loads(s, **kw)
        raise ValueError('not json')

    @staticmethod
    def dumps(obj, **kw):
        from engineio import json as _j
        return _j.dumps(obj, **kw)


def _symbolic_roundtrip(sfl, cfl, ws, text):
    from engineio import packet as _packet
    k = Kernel()
    old = _packet.Packet.json
    srv = (ThreadedSut if sfl == 0 else AsyncSut)(k=k, async_handlers=False, ping_interval=PI, ping_timeout=PT)
    cl = (ThreadedClientSut if cfl == 0 else AsyncClientSut)(k, ServerPeer(srv))
    st = dict(server=srv.flavour, client=cl.flavour, transport='websocket' if ws else 'polling')
    try:
        _packet.Packet.json = _SeamJson
        h = cl.call('connect', 'http://h.example', transports=['websocket'] if ws else ['polling'])
        k.settle()
        if h.exc is not None or cl.state() != 'connected':
            return fail(PROP, 'CONNECT', 'connect: %r' % (h.exc,), **st)
        sid = srv.sids()[0]
        cl.call('send', text)
        srv.app_send(sid, text)
        k.settle()
        k.run(until=k.now + 1)
        got_s = [a for kk, s_, a in srv.events if kk == 'message']
        got_c = [a for kk, a in cl.events if kk == 'message']
        if got_s != [text]:
            return fail(PROP, 'CLIENT-TO-SERVER', 'client sent %r, server received %r' % (text, got_s), **st)
        if got_c != [text]:
            return fail(PROP, 'SERVER-TO-CLIENT', 'server sent %r, client received %r' % (text, got_c), **st)
        return ''
    finally:
        _packet.Packet.json = old
        cl.close()
        srv.close()


@cond(quick=dict(S=2, SP=1, timeout=170, parts=dict(S_=[0, 1], C=[0, 1], WS=[0, 1])), thorough=dict(S=4, SP=2, timeout=1500, parts=dict(S_=[0, 1], C=[0, 1], WS=[0, 1])))
def symbolic_text_roundtrip(sfl: int, cfl: int, ws: int, text: str) -> str:
    """
    pre: sfl == P.S_ and cfl == P.C and ws == P.WS and len(text) <= (P.S if P.WS else P.SP)
    post: _ == ''
    """
    # the payload is a SYMBOLIC text travelling client -> server and server -> client through both real implementations
    if '\x1e' in text:
        return ''
    return verdict(_symbolic_roundtrip(sfl, cfl, bool(ws), text))
