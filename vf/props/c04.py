"""C04 Client-to-server packets are acted on exactly once, in order, by type."""
from vf.rt import P, cond, verdict, fail, untraced
from vf.props.common import mk, packets_of, frames_packets, WsPeer, SIM_STUBS, SIM_OUTSIDE, blocked_in_close_join

PROP = 'C04'
EXPLANATION = ('Whole-server level: the real Server/Socket and AsyncServer/AsyncSocket (through the real ASGI driver) '
               'receive POST bodies and WebSocket frames built from symbolic packet types (0-9), payload selectors, '
               'packet counts, handler dispatch mode and poll-pending flag; a 20-line reference function gives the '
               'expected events, status and liveness.')
STUBS = SIM_STUBS
OUTSIDE = SIM_OUTSIDE + ['bodies of more than 3 packets with free types (longer bodies use one repeated packet)',
                         'payload texts outside the table']
NOT_CONSTRAINED = ['what happens to packets that follow a CLOSE or an invalid packet inside the same body',
                   'the number of PINGs scheduled when several PONGs arrive (at least one must follow)']
ASSUMPTIONS = ['cooperative scheduling only (see stubs)']

# (wire payload, decoded payload) for MESSAGE packets
PAY = (('hello', 'hello'), ('', ''), ('{"a":[1,"x"]}', {'a': [1, 'x']}), ('12', '12'), ('"s"', 's'), ('null', None),
       ('true', 'true'), ('\xe9€', '\xe9€'), ('a b+c&d=e%20f', 'a b+c&d=e%20f'), ('{"k": "v w", "n": [1, 2]}', {'k': 'v w', 'n': [1, 2]}),
       ('{"t":"line\\nbreak"}', {'t': 'line\nbreak'}), ('C:\\new\\n', 'C:\\new\\n'))
BIN = ('bAAH/', b'\x00\x01\xff')


def _wire(t, k):
    if t == 4 and k == len(PAY):
        return BIN[0], BIN[1]
    if t == 4:
        return '4' + PAY[k][0], PAY[k][1]
    return str(t), None


def _reference(pkts):
    """pkts: [(type, decoded)] -> (events_prefix, all_messages, pongs, upgrades, ending) ; ending in None|'close'|'error'"""
    prefix, pongs, ups, ending = [], 0, 0, None
    for t, d in pkts:
        if t == 4:
            prefix.append(d)
        elif t == 3:
            pongs += 1
        elif t == 5:
            ups += 1
        elif t == 1:
            ending = 'close'
            break
        else:
            ending = 'error'
            break
    return prefix, [d for t, d in pkts if t == 4], pongs, ups, ending


def _same(a, b):
    return a == b and type(a) is type(b)


def _events_ok(got, prefix, allm, ordered, ending):
    """got must start with prefix (the packets before the first CLOSE/invalid one); anything beyond must continue the
    body's MESSAGE sequence (never a duplicate, never out of order); without an ending it is exactly the list."""
    if not ordered:
        g = sorted(map(repr, got))
        if ending is None:
            return g == sorted(map(repr, allm))
        # every prefix message exactly once; extras only from the remaining messages, at most once each
        rest = list(map(repr, allm))
        for x in g:
            if x in rest:
                rest.remove(x)
            else:
                return False
        need = list(map(repr, prefix))
        for x in need:
            if x not in g:
                return False
            g.remove(x)
        return True
    if len(got) < len(prefix) or len(got) > len(allm):
        return False
    if ending is None and len(got) != len(allm):
        return False
    return all(_same(x, y) for x, y in zip(got, allm))


def _dispatch_polling(fl, ah, pending, spec, form=False):
    sut = mk(fl, async_handlers=ah)
    try:
        r0 = sut.open('polling')
        sut.settle()
        if sut.status(r0) != 200 or len(sut.sids()) != 1:
            return fail(PROP, 'SETUP', 'open failed')
        sid = sut.sids()[0]
        wires = [_wire(t, k) for t, k in spec]
        pkts = [(t, w[1]) for (t, k), w in zip(spec, wires)]
        body = '\x1e'.join(w[0] for w in wires)
        prefix, allm, pongs, ups, ending = _reference(pkts)
        poll = None
        if pending:
            poll = sut.get(sid)
            sut.settle()
        n_before = len(sut.events)
        # (ASGI gateway: the body arrives in 1, 2 or 3 http.request events depending on the number of packets)
        sut.body_chunks = 1 + len(spec) % 3
        sut.body_tail_empty = bool(pending)
        if form:
            # the form-encoded variant of the same body, as JSONP-polling browsers POST it (spaces as '+')
            import urllib.parse
            post = sut.post(sid, 'd=' + urllib.parse.quote_plus(body), extra='&j=0')
        else:
            post = sut.post(sid, body)
        sut.settle()
        got = [a for kind, s, a in sut.events[n_before:] if kind == 'message']
        others = [(kind, s) for kind, s, a in sut.events[n_before:] if kind != 'message']
        st = dict(flavour=sut.flavour, pending=bool(pending), ending=ending, handlers='async' if ah else 'sync', form=bool(form))
        if spec == []:
            # an empty body is accepted and does nothing
            if got or sut.status(post) != 200:
                return fail(PROP, 'EMPTY-BODY', 'status %r events %r' % (sut.status(post), got), **st)
        if any(s != sid for kind, s, a in sut.events):
            return fail(PROP, 'EVENT-SID', 'event for another session', **st)
        if not _events_ok(got, prefix, allm, not ah, ending):
            return fail(PROP, 'MESSAGE-EVENTS', 'body %r -> message events %r, expected %r%s' % (
                body, got, prefix, '' if ending is None else ' then (unconstrained) at most %r' % (allm[len(prefix):],)), **st)
        # request outcome
        if not post.done:
            hung_in_close = blocked_in_close_join(post.task)
            m = fail(PROP, 'POST-COMPLETES', 'POST %r never completed (blocked in %s)' % (body, post.task.what),
                     hung_in_close=hung_in_close, **st)
            if m:
                return m
        else:
            if post.exc is not None:
                return fail(PROP, 'POST-EXCEPTION', '%s escaped handle_request for body %r' % (type(post.exc).__name__, body), **st)
            want = 400 if ending == 'error' else 200
            trailing = ending == 'close' and len(prefix) + pongs + ups + 1 < len(spec)
            # packets that follow a CLOSE inside the same body are not constrained by the statement, and neither is
            # the status of a body that has such packets (the server may refuse them as sent to a closed session)
            if sut.status(post) != want and not (trailing and sut.status(post) in (200, 400)):
                return fail(PROP, 'POST-STATUS', 'body %r answered %r, expected %d' % (body, sut.status(post), want), **st)
        disc = [o for o in others if o[0] == 'disconnect']
        if ending is None:
            if disc:
                return fail(PROP, 'SPURIOUS-END', 'body %r ended the session' % body, **st)
        else:
            if len(disc) != 1:
                return fail(PROP, 'SESSION-END', 'body %r: %d disconnect events' % (body, len(disc)), **st)
        # what the client gets back: NOOP per UPGRADE; PING within ping_interval after a PONG
        delivered = []
        if poll is not None and poll.done and sut.status(poll) == 200:
            delivered += packets_of(sut, poll)
        if ending is None:
            if poll is None or poll.done:
                p2 = sut.get(sid)
                if ups == 0 and (poll is None or not [1 for t, _ in delivered]):
                    pass
                sut.run(until=sut.k.now + sut.srv.ping_interval)
                if not p2.done:
                    return fail(PROP, 'POLL-HANGS', 'poll not answered within ping_interval', **st)
                if sut.status(p2) != 200:
                    return fail(PROP, 'SESSION-ALIVE', 'poll after body %r answered %r' % (body, sut.status(p2)), **st)
                delivered += packets_of(sut, p2)
                if not p2.done or (2, '') not in delivered and pongs:
                    p3 = sut.get(sid)
                    sut.run(until=sut.k.now + sut.srv.ping_interval)
                    if p3.done and sut.status(p3) == 200:
                        delivered += packets_of(sut, p3)
            else:
                sut.run(until=sut.k.now + sut.srv.ping_interval)
                if poll.done and sut.status(poll) == 200:
                    delivered += packets_of(sut, poll)
            noops = len([1 for t, d in delivered if t == 6])
            if noops != ups:
                return fail(PROP, 'UPGRADE-NOOP', 'body %r: %d UPGRADE packets answered with %d NOOP' % (body, ups, noops), **st)
            if pongs and not [1 for t, d in delivered if t == 2]:
                return fail(PROP, 'PONG-REARMS', 'no PING within ping_interval after a PONG (delivered %r)' % (delivered,), **st)
            # the session still works
            n2 = len(sut.events)
            p4 = sut.post(sid, '4still')
            sut.settle()
            if [a for kind, s, a in sut.events[n2:] if kind == 'message'] != ['still']:
                return fail(PROP, 'SESSION-ALIVE', 'session unusable after body %r' % body, **st)
        else:
            # ended: nothing more for this sid
            n2 = len(sut.events)
            p4 = sut.post(sid, '4late')
            sut.settle()
            if len(sut.events) != n2:
                return fail(PROP, 'EVENT-AFTER-END', 'events %r after the session ended' % (sut.events[n2:],), **st)
            if p4.done and p4.exc is None and sut.status(p4) != 400:
                return fail(PROP, 'CLOSED-SESSION-ADMITTED', 'POST to ended session answered %r' % sut.status(p4), **st)
        return ''
    finally:
        sut.close()


def _ok_type_payload(t, k):
    return (t == 4 and 0 <= k <= len(PAY)) or (t != 4 and k == 0)


_T3 = (4, 1, 7, 3, 5, 0)
_T1 = (4, 1, 7, 3, 5, 0, 2, 6, 8, 9)


def _two(fl, ah, pending, n, t0, k0, b, k1, form):
    spec = [(t0, k0), (_T1[b], k1)][:n]
    return _dispatch_polling(fl, bool(ah), pending, spec, form)


@cond(quick=dict(timeout=170, T=6, K=0, parts=dict(FL=[0, 1], AH=[0, 1])),
      thorough=dict(timeout=1200, T=10, K=10, parts=dict(FL=[0, 1], AH=[0, 1], PEND=[0, 1])))
def polling_two(fl: int, ah: int, pending: bool, n: int, t0: int, k0: int, b: int, k1: int, form: bool) -> str:
    """
    pre: fl == P.FL and ah == P.AH and 0 <= n <= 2 and 0 <= t0 <= 9 and 0 <= b < P.T and 0 <= k1 <= P.K
    pre: ((t0 == 4 and 0 <= k0 <= len(PAY)) or (t0 != 4 and k0 == 0)) and (_T1[b] == 4 or k1 == 0)
    pre: (n >= 2 or (b == 0 and k1 == 0)) and (n >= 1 or (t0 == 0 and k0 == 0))
    pre: not hasattr(P, 'PEND') or pending == bool(P.PEND)
    post: _ == ''
    """
    # first packet: any type 0-9 with any table payload (text, JSON, integer-looking, empty, binary, text with spaces);
    # second packet from the type table (quick: MESSAGE, CLOSE, 7, PONG, UPGRADE, OPEN; thorough: all ten types with payloads);
    # plain body or its form-encoded (JSONP) variant
    return verdict(untraced(_two, fl, ah, pending, n, t0, k0, b, k1, form))


def _three(fl, ah, pending, a, b, c, k):
    spec = [(_T3[x], k if _T3[x] == 4 else 0) for x in (a, b, c)]
    return _dispatch_polling(fl, bool(ah), pending, spec)


@cond(quick=dict(timeout=170, T=4, K=0, parts=dict(FL=[0, 1], AH=[0, 1])),
      thorough=dict(timeout=1200, T=6, K=2, parts=dict(FL=[0, 1], AH=[0, 1], PEND=[0, 1])))
def polling_three(fl: int, ah: int, pending: bool, a: int, b: int, c: int, k: int) -> str:
    """
    pre: fl == P.FL and ah == P.AH and 0 <= a < P.T and 0 <= b < P.T and 0 <= c < P.T and 0 <= k <= P.K
    pre: not hasattr(P, 'PEND') or pending == bool(P.PEND)
    post: _ == ''
    """
    # every position of a CLOSE / undefined-type / PONG / UPGRADE packet inside a 3-packet body
    return verdict(untraced(_three, fl, ah, pending, a, b, c, k))


def _repeat_body(fl, ah, k, ws):
    """The same body arrives three times (twice on one session, once on another session of the same server) and the
    application's handler empties every JSON container it is handed: each MESSAGE event still carries the payload that was
    sent (what the handler of an earlier event did to ITS data is not visible in a later one)."""
    import copy
    sut = mk(fl, async_handlers=ah)
    try:
        snap = []

        def consume(sid, data):
            snap.append(copy.deepcopy(data))
            if isinstance(data, dict):
                data.clear()
            elif isinstance(data, list):
                del data[:]
        sut.on_message = consume
        peers = []
        for _ in range(2):
            r = sut.open('websocket' if ws else 'polling')
            sut.settle()
            peers.append(r.peer)
        sids = sut.sids()
        wire, want = _wire(4, k)
        for target in (0, 0, 1):
            if ws:
                peers[target].send(wire)
            else:
                sut.post(sids[target], wire + '\x1e' + wire)
            sut.settle()
        sut.run(until=sut.k.now + 1)
        n = 3 if ws else 6
        if len(snap) != n or any(not _same(x, want) for x in snap):
            return fail(PROP, 'MESSAGE-EVENTS', 'payload %r sent %d times, handlers were given %r' % (wire, n, snap), flavour=sut.flavour,
                        handlers='async' if ah else 'sync', transport='websocket' if ws else 'polling')
        return ''
    finally:
        sut.close()


@cond(quick=dict(timeout=120), thorough=dict(timeout=300))
def repeated_bodies(fl: int, ah: bool, k: int, ws: bool) -> str:
    """
    pre: 0 <= fl <= 1 and 0 <= k <= len(PAY)
    post: _ == ''
    """
    return verdict(untraced(_repeat_body, fl, ah, k, ws))


def _empty_binary(fl, ah, mode):
    """A MESSAGE whose payload is the EMPTY byte string (polling: the text packet 'b'; WebSocket: an empty binary frame),
    followed by an ordinary message: two message events, b'' and 'after', and the session lives on."""
    sut = mk(fl, async_handlers=ah)
    try:
        st = dict(flavour=sut.flavour, handlers='async' if ah else 'sync', mode=('polling', 'websocket', 'upgraded')[mode])
        if mode == 1:
            r = sut.open('websocket')
            sut.settle()
            peer = r.peer
        else:
            sut.open('polling')
            sut.settle()
            peer = None
        sid = sut.sids()[0]
        if mode == 2:
            u = sut.ws_upgrade(sid)
            sut.settle()
            u.peer.send('2probe')
            sut.settle()
            u.peer.send('5')
            sut.settle()
            peer = u.peer
        if peer is None:
            p1 = sut.post(sid, 'b')
            sut.settle()
            p2 = sut.post(sid, '4after')
            sut.settle()
            if sut.status(p1) != 200 or sut.status(p2) != 200:
                return fail(PROP, 'POST-STATUS', 'POST of an empty binary message answered %r, the next POST %r' % (sut.status(p1), sut.status(p2)), **st)
        else:
            peer.send(b'')
            sut.settle()
            peer.send('4after')
            sut.settle()
        sut.run(until=sut.k.now + 1)
        got = [a for kind, s_, a in sut.events if kind == 'message']
        if len(got) != 2 or not any(_same(x, b'') for x in got) or 'after' not in got or (not ah and got != [b'', 'after']):
            return fail(PROP, 'MESSAGE-EVENTS', 'empty binary message then "after": message events %r' % (got,), **st)
        disc = [a for kind, s_, a in sut.events if kind == 'disconnect']
        if disc:
            return fail(PROP, 'SPURIOUS-END', 'an empty binary message ended the session: %r' % (disc,), **st)
        return ''
    finally:
        sut.close()


@cond(quick=dict(timeout=60), thorough=dict(timeout=120))
def empty_binary_message(fl: int, ah: bool, mode: int) -> str:
    """
    pre: 0 <= fl <= 1 and 0 <= mode <= 2
    post: _ == ''
    """
    return verdict(untraced(_empty_binary, fl, ah, mode))


def _dispatch_ws(fl, ah, upgraded, frames_spec):
    """Frames on an established WebSocket session (opened directly or reached by upgrade)."""
    sut = mk(fl, async_handlers=ah)
    try:
        if upgraded:
            sut.open('polling')
            sut.settle()
            sid = sut.sids()[0]
            u = sut.ws_upgrade(sid)
            sut.settle()
            u.peer.send('2probe')
            sut.settle()
            u.peer.send('5')
            sut.settle()
            peer = u.peer
            if sut.transport(sid) != 'websocket':
                return fail(PROP, 'SETUP', 'upgrade failed')
        else:
            u = sut.open('websocket')
            sut.settle()
            sid = sut.sids()[0]
            peer = u.peer
        st = dict(flavour=sut.flavour, via='upgrade' if upgraded else 'direct', handlers='async' if ah else 'sync')
        n0 = len(sut.events)
        f0 = len(peer.frames)
        exp, closed = [], False
        ups = pongs = 0
        for t, k in frames_spec:
            w, d = _wire(t, k)
            if w[:1] == 'b':
                w = d          # binary data travels as a binary frame on WebSocket
            peer.send(w)
            sut.settle()
            if closed:
                continue
            if t == 4:
                exp.append(d)
            elif t == 1:
                closed = True
            elif t == 3:
                pongs += 1
            elif t == 5:
                ups += 1
        got = [a for kind, s, a in sut.events[n0:] if kind == 'message']
        if closed:
            ok = len(got) >= len(exp) and all(_same(x, y) for x, y in zip(got, exp)) if not ah else \
                all(repr(x) in list(map(repr, got)) for x in exp)
            if not ok:
                return fail(PROP, 'WS-MESSAGE-EVENTS', 'frames %r -> events %r, expected to start with %r' % (frames_spec, got, exp), **st)
        else:
            ok = (len(got) == len(exp) and all(_same(x, y) for x, y in zip(got, exp))) if not ah else \
                sorted(map(repr, got)) == sorted(map(repr, exp))
            if not ok:
                return fail(PROP, 'WS-MESSAGE-EVENTS', 'frames %r -> events %r, expected %r' % (frames_spec, got, exp), **st)
        disc = [1 for kind, s, a in sut.events[n0:] if kind == 'disconnect']
        if closed and len(disc) != 1:
            return fail(PROP, 'WS-CLOSE-ENDS', 'CLOSE frame: %d disconnect events' % len(disc), **st)
        if not closed:
            if disc:
                return fail(PROP, 'WS-SPURIOUS-END', 'frames %r ended the session' % (frames_spec,), **st)
            noops = len([1 for f in peer.frames[f0:] if f == '6'])
            if noops != ups:
                return fail(PROP, 'UPGRADE-NOOP', '%d UPGRADE frames answered with %d NOOP' % (ups, noops), **st)
            if pongs:
                sut.run(until=sut.k.now + sut.srv.ping_interval)
                if '2' not in peer.frames[f0:]:
                    return fail(PROP, 'PONG-REARMS', 'no PING within ping_interval after a PONG frame', **st)
            n1 = len(sut.events)
            peer.send('4still')
            sut.settle()
            if [a for kind, s, a in sut.events[n1:] if kind == 'message'] != ['still']:
                return fail(PROP, 'SESSION-ALIVE', 'WebSocket session unusable after frames %r' % (frames_spec,), **st)
        return ''
    finally:
        sut.close()


def _ws_two(fl, ah, upgraded, n, t0, k0, b):
    return _dispatch_ws(fl, bool(ah), upgraded, [(t0, k0), (_T3[b], 0)][:n])


@cond(quick=dict(timeout=170, T=4, parts=dict(FL=[0, 1], AH=[0, 1])), thorough=dict(timeout=900, T=6, parts=dict(FL=[0, 1], AH=[0, 1])))
def websocket_frames(fl: int, ah: int, upgraded: bool, n: int, t0: int, k0: int, b: int) -> str:
    """
    pre: fl == P.FL and ah == P.AH and 1 <= n <= 2 and 0 <= t0 <= 9 and 0 <= b < P.T
    pre: ((t0 == 4 and 0 <= k0 <= len(PAY)) or (t0 != 4 and k0 == 0)) and (n >= 2 or b == 0)
    post: _ == ''
    """
    # first frame: any type 0-9 / any table payload (text, JSON, binary frame); second frame from the type table
    return verdict(untraced(_ws_two, fl, ah, upgraded, n, t0, k0, b))


def _dispatch_mid_upgrade(fl, ah, spec, stage=0):
    """A POST that reaches a session in the middle of the upgrade handshake (stage 0: probe answered, UPGRADE not yet sent),
    just after the upgrade completed (stage 1: a POST that was in flight while the UPGRADE frame travelled) or a session opened
    directly on WebSocket (stage 2). The server answers such a POST 200, so its packets must be acted on."""
    sut = mk(fl, async_handlers=ah)
    try:
        if stage == 2:
            u = sut.open('websocket')
            sut.settle()
            sid = sut.sids()[0]
        else:
            sut.open('polling')
            sut.settle()
            sid = sut.sids()[0]
            u = sut.ws_upgrade(sid)
            sut.settle()
            u.peer.send('2probe')
            sut.settle()
            if u.peer.frames[:1] != ['3probe']:
                return fail(PROP, 'SETUP', 'probe not answered')
            if stage == 1:
                u.peer.send('5')
                sut.settle()
        wires = [_wire(t, k) for t, k in spec]
        pkts = [(t, w[1]) for (t, k), w in zip(spec, wires)]
        body = '\x1e'.join(w[0] for w in wires)
        prefix, allm, pongs, ups, ending = _reference(pkts)
        n0 = len(sut.events)
        post = sut.post(sid, body)
        sut.settle()
        st = dict(flavour=sut.flavour, ending=ending, handlers='async' if ah else 'sync', mid_upgrade=True, stage=stage)
        if stage > 0 and post.done and post.exc is None and sut.status(post) != 200:
            return ''       # a server that REFUSES polling POSTs on a WebSocket session is not constrained here (C12 settles admission)
        if stage > 0 and not post.done:
            m = fail(PROP, 'POST-COMPLETES', 'POST %r on a WebSocket session never completed' % body,
                     hung_in_close=blocked_in_close_join(post.task), **st)
            if m:
                return m
            return ''
        got = [a for kind, s_, a in sut.events[n0:] if kind == 'message']
        if not _events_ok(got, prefix, allm, not ah, ending):
            return fail(PROP, 'MESSAGE-EVENTS', 'mid-upgrade POST %r -> message events %r, expected %r' % (body, got, prefix), **st)
        if post.done and post.exc is None and ending is None and sut.status(post) != 200:
            return fail(PROP, 'POST-STATUS', 'mid-upgrade POST %r answered %r' % (body, sut.status(post)), **st)
        disc = [1 for kind, s_, a in sut.events[n0:] if kind == 'disconnect']
        if ending is None and disc:
            return fail(PROP, 'SPURIOUS-END', 'mid-upgrade POST %r ended the session' % body, **st)
        if ending is not None and len(disc) != 1:
            return fail(PROP, 'SESSION-END', 'mid-upgrade POST %r: %d disconnect events' % (body, len(disc)), **st)
        if ending is None:
            # the upgrade can still be completed and the session then works on WebSocket
            if stage == 0:
                u.peer.send('5')
                sut.settle()
            n1 = len(sut.events)
            u.peer.send('4still')
            sut.settle()
            if [a for kind, s_, a in sut.events[n1:] if kind == 'message'] != ['still']:
                return fail(PROP, 'SESSION-ALIVE', 'session unusable after a mid-upgrade POST %r' % body, **st)
        return ''
    finally:
        sut.close()


@cond(quick=dict(timeout=170, parts=dict(ST=[0, 1, 2], FL=[0, 1])), thorough=dict(timeout=600, parts=dict(ST=[0, 1, 2], FL=[0, 1])))
def mid_upgrade_post(fl: int, ah: bool, t0: int, k0: int, b: int, n: int, stage: int) -> str:
    """
    pre: fl == P.FL and 1 <= n <= 2 and 0 <= t0 <= 9 and 0 <= b < len(_T1) and stage == P.ST and (P.ST == 0 or b <= 5)
    pre: ((t0 == 4 and 0 <= k0 <= len(PAY)) or (t0 != 4 and k0 == 0))
    post: _ == ''
    """
    spec = [(t0, k0), (_T1[b], 0)][:n]
    return verdict(untraced(_mid, fl, ah, t0, k0, b, n, stage))


def _mid(fl, ah, t0, k0, b, n, stage=0):
    return _dispatch_mid_upgrade(fl, ah, [(t0, k0), (_T1[b], 0)][:n], stage)


def _refused(fl, kind, n, lim):
    """Bodies that must produce no message event at all."""
    sut = mk(fl, async_handlers=False, max_http_buffer_size=lim if kind in (2, 6) else 1000000)
    try:
        sut.open('polling')
        sut.settle()
        sid = sut.sids()[0]
        n0 = len(sut.events)
        if kind == 0:       # undecodable packet at position n of a 3-packet body
            parts = ['4a', '4b', '4c']
            parts[n % 3] = ('x', '', 'bA', '½')[n % 4]
            r = sut.post(sid, '\x1e'.join(parts))
        elif kind == 1:     # more packets than the limit
            r = sut.post(sid, '\x1e'.join(['4m%d' % i for i in range(17 + n)]))
        elif kind == 2:     # declared length above the size limit
            r = sut.post(sid, '4' + 'x' * (lim + n), declared_len=lim + 1 + n)
        elif kind == 3:     # unknown session
            r = sut.post(sid + 'x', '4a\x1e4b')
        elif kind == 6:     # a body longer than the size limit, sent without a Content-Length header (chunked upload)
            sut.body_chunks = 1 + n % 3
            r = sut.post(sid, '\x1e'.join(['4' + 'y' * lim, '4z', '4w'][:1 + n % 3]), declared_len='absent')
        elif kind == 5:     # more packets than the limit, form-encoded (JSONP polling) body
            import urllib.parse
            r = sut.post(sid, 'd=' + urllib.parse.quote('\x1e'.join(['4m%d' % i for i in range(17 + n)])), extra='&j=0')
        else:               # closed session (CLOSE packet first, then a body naming it)
            sut.post(sid, '1')
            sut.settle()
            n0 = len(sut.events)
            r = sut.post(sid, '4a\x1e4b')
        sut.settle()
        msgs = [a for kind_, s, a in sut.events[n0:] if kind_ == 'message']
        if msgs:
            return fail(PROP, 'REFUSED-BODY-EVENTS', 'refused body kind %d/%d produced message events %r' % (kind, n, msgs),
                        flavour=sut.flavour)
        if r.done and r.exc is not None and kind != 4:
            return fail(PROP, 'POST-EXCEPTION', '%s escaped for refused body kind %d' % (type(r.exc).__name__, kind),
                        flavour=sut.flavour)
        return ''
    finally:
        sut.close()


@cond(quick=dict(timeout=120, parts=dict(FL=[0, 1])), thorough=dict(timeout=600, parts=dict(FL=[0, 1])))
def refused_bodies(fl: int, kind: int, n: int, lim: int) -> str:
    """
    pre: fl == P.FL and 0 <= kind <= 6 and 0 <= n <= 11 and 8 <= lim <= 12 and (kind == 2 or lim == 8)
    post: _ == ''
    """
    return verdict(_refused(fl, kind, n, lim))


from vf.validate.stubs import ALL as VALIDATE  # noqa: E402  (stub-vs-real conformance, run before the obligations)


class _NeverJson:
    @staticmethod
    def loads(s, **kw):
        raise ValueError('not json')

    @staticmethod
    def dumps(obj, **kw):
        import json
        return json.dumps(obj, **kw)


def _passthrough(fl, ws, text):
    """A MESSAGE whose payload is an arbitrary (symbolic) text reaches the handler unchanged."""
    from engineio import packet as _packet
    old = _packet.Packet.json
    sut = mk(fl, async_handlers=False)
    try:
        if ws:
            r = sut.open('websocket')
            sut.settle()
        else:
            sut.open('polling')
            sut.settle()
        sid = sut.sids()[0]
        _packet.Packet.json = _NeverJson           # seam: no text is JSON (the look-alike rule is C01's subject)
        n0 = len(sut.events)
        if ws:
            r.peer.send('4' + text)
        else:
            sut.post(sid, '4' + text)
        sut.settle()
        got = [a for k, s_, a in sut.events[n0:] if k == 'message']
        if got != [text]:
            return fail(PROP, 'PAYLOAD-UNCHANGED', 'payload %r delivered as %r' % (text, got), flavour=sut.flavour,
                        transport='websocket' if ws else 'polling')
        return ''
    finally:
        _packet.Packet.json = old
        sut.close()


@cond(quick=dict(S=3, timeout=170, parts=dict(FL=[0, 1], WS=[0, 1])), thorough=dict(S=5, timeout=1200, parts=dict(FL=[0, 1], WS=[0, 1])))
def symbolic_payload_passthrough(fl: int, ws: int, text: str) -> str:
    """
    pre: fl == P.FL and ws == P.WS and len(text) <= P.S
    post: _ == ''
    """
    if '\x1e' in text:
        return ''
    return verdict(_passthrough(fl, bool(ws), text))
