"""C18 Threaded and asyncio servers are observationally equivalent."""
from vf.rt import P, cond, verdict, fail, untraced
from vf.props.common import mk, packets_of, WsPeer, SIM_STUBS, SIM_OUTSIDE, blocked_in_close_join
from vf.oracles.wire import decode_packet

PROP = 'C18'
EXPLANATION = ('Differential: the SAME solver-enumerated history of client requests, frames, transport faults, clock advances and '
               'application calls is replayed step by step against the threaded server (WSGI gateway) and the asyncio server (real '
               'ASGI driver) in two kernels with the same virtual clock; after every step the normalised observations are '
               'compared: application event log per session (kind, payload, order, reason for client- or application-initiated '
               'ends), messages handed to the client per transport, HTTP status of every finished request, transport of every '
               'live session.')
STUBS = SIM_STUBS
OUTSIDE = SIM_OUTSIDE + ['histories longer than 4 steps', 'step alphabet outside the table', 'more than 2 sessions']
NOT_CONSTRAINED = ['when a poll or WebSocket handler that is still in flight at the moment its session ends is released, and with what', 'the reason of an end caused by silence (both must have ended the session within the heartbeat bound)',
                   'response bodies of refusals (only the status is compared)', 'when exactly the server closes a WebSocket after the '
                   'session ended', 'whether a request blocked by known finding F6 (close(wait=True)) completes']
ASSUMPTIONS = ['cooperative scheduling only; virtual integer time']

PI, PT = 3, 2
LIMIT = 60          # max_http_buffer_size on both sides (bytes for POST bodies, characters/bytes for frames)
STEPS = ('open-polling', 'open-websocket', 'poll', 'post-message', 'post-close', 'post-pong', 'post-upgrade-packet', 'post-type7',
         'post-garbage', 'post-17-packets', 'send-text', 'send-json', 'send-binary', 'disconnect-sid', 'upgrade-ok', 'upgrade-wrong-frame',
         'upgrade-garbage', 'upgrade-close-after-probe', 'ws-message', 'ws-binary', 'ws-close-packet', 'ws-type8', 'ws-drop',
         'advance-interval', 'advance-past-bound', 'bad-method', 'bad-transport', 'unknown-sid', 'bad-version', 'poll-second-session',
         'post-binary', 'post-two-then-close', 'jsonp-poll', 'ws-pong', 'post-nonascii-over-bytes', 'post-ascii-at-limit',
         'post-ascii-over-limit', 'ws-frame-over-limit', 'ws-nonascii-frame', 'post-close-then-message', 'post-form-encoded',
         'send-burst-over-limit', 'upgrade-slow-probe-send', 'post-no-content-length', 'post-close-no-content-length', 'ws-empty-binary', 'post-empty-binary')


class _Side:
    def __init__(self, fl):
        self.sut = mk(fl, async_handlers=False, ping_interval=PI, ping_timeout=PT, monitor_clients=True, max_http_buffer_size=LIMIT)
        self.peers = {}        # session index -> WsPeer currently attached
        self.reqs = []         # (label, Req) in issue order
        self.polls = {}        # session index -> pending poll
        self.delivered = {}    # session index -> [(transport, type, data)]
        self.seen = {}

    def sid(self, i):
        s = self.sut.sids()
        return s[i] if i < len(s) else 'no-such-session-%d' % i

    def idx(self, sid):
        s = self.sut.sids()
        return s.index(sid) if sid in s else -1

    def collect(self):
        sut = self.sut
        for i, g in list(self.polls.items()):
            if g.done:
                del self.polls[i]
                if sut.status(g) == 200:
                    try:
                        for t, d in packets_of(sut, g):
                            self.delivered.setdefault(i, []).append(('polling', t, d))
                    except Exception:  # noqa  (JSONP bodies are compared as status only)
                        pass
        for i, p in self.peers.items():
            k = self.seen.get(id(p), 0)
            for f in p.frames[k:]:
                t, d = decode_packet(f)
                self.delivered.setdefault(i, []).append(('websocket', t, d))
            self.seen[id(p)] = len(p.frames)

    def observe(self, silence):
        sut = self.sut
        self.collect()
        ev = {}
        for k, s, a in sut.events:
            i = self.idx(s)
            if k == 'disconnect' and a in ('ping timeout', 'transport close', 'transport error') and silence.get(i):
                a = 'SILENCE'
            ev.setdefault(i, []).append((k, a))
        status = []
        for label, r in self.reqs:
            if r.done:
                if r.exc is not None:
                    status.append((label, 'EXC ' + type(r.exc).__name__))
                elif r.peer is not None:
                    status.append((label, 'ws'))
                else:
                    status.append((label, sut.status(r)))
            else:
                status.append((label, 'F6' if any(blocked_in_close_join(t) for t in sut.k.blocked()) else 'pending'))
        tr = {}
        for i, s in enumerate(sut.sids()):
            try:
                tr[i] = sut.srv.transport(s) if s in sut.srv.sockets and not sut.srv.sockets[s].closed else 'dead'
            except KeyError:
                tr[i] = 'dead'
        msgs = {i: [(tp, d) for tp, t, d in v if t == 4] for i, v in self.delivered.items()}
        other = {i: sorted(set(t for tp, t, d in v if t != 4)) for i, v in self.delivered.items()}
        return {'events': ev, 'status': status, 'transport': tr, 'messages': msgs, 'other_packets': other}


def _apply(side, step, n):
    sut = side.sut
    s0 = side.sid(0)

    def req(label, r):
        side.reqs.append(('%d:%s' % (n, label), r))
        return r
    if step == 'open-polling':
        req(step, sut.open('polling'))
    elif step == 'open-websocket':
        r = req(step, sut.open('websocket'))
        sut.settle()
        if r.peer.accepted:
            side.peers[len(sut.sids()) - 1] = r.peer
    elif step in ('poll', 'jsonp-poll'):
        if 0 not in side.polls:
            side.polls[0] = req(step, sut.get(s0, extra='&j=4' if step == 'jsonp-poll' else ''))
    elif step == 'poll-second-session':
        if 1 not in side.polls:
            side.polls[1] = req(step, sut.get(side.sid(1)))
    elif step in ('post-no-content-length', 'post-close-no-content-length', 'ws-empty-binary', 'post-empty-binary'):
        # a POST sent with chunked transfer encoding: a body, but no Content-Length header
        req(step, sut.post(s0, '4chunked%d' % n if step == 'post-no-content-length' else '1', declared_len='absent'))
    elif step.startswith('post-'):
        body = {'post-message': '4m%d' % n, 'post-close': '1', 'post-pong': '3', 'post-upgrade-packet': '5', 'post-type7': '7',
                'post-garbage': 'zz', 'post-17-packets': '\x1e'.join(['4x'] * 17), 'post-binary': 'bAAEC',
                'post-two-then-close': '4a\x1e4b\x1e1', 'post-close-then-message': '4a\x1e1\x1e4late',
                'post-form-encoded': 'd=4hello+world%1E4%7B%22a%22%3A+%22b+c%22%7D%1E4x%2By', 'post-nonascii-over-bytes': '4' + '\u0436' * 35,
                'post-ascii-at-limit': '4' + 'x' * (LIMIT - 1), 'post-ascii-over-limit': '4' + 'x' * LIMIT, 'post-empty-binary': 'b'}[step]
        req(step, sut.post(s0, body))
    elif step.startswith('send-'):
        if step == 'send-burst-over-limit':
            # a backlog larger than max_http_buffer_size between two reads, with short messages queued behind the long ones
            for j, data in enumerate(['L' * 25 + str(n), 'M' * 25 + str(n), 'c%d' % n, 'd%d' % n, 'e%d' % n]):
                sut.app_send(s0, data)
        else:
            data = {'send-text': 't%d' % n, 'send-json': {'n': n}, 'send-binary': bytes([n, 255])}[step]
            sut.app_send(s0, data)
    elif step == 'disconnect-sid':
        req(step, sut.app_disconnect(s0))
    elif step == 'upgrade-slow-probe-send':
        # slow network during the handshake: the server's answer to the probe stays in flight (back-pressure) while the
        # application sends a message; then the link drains and the client completes the upgrade
        from vf.props.common import WsPeer as _WsPeer
        wp = _WsPeer()
        u = req(step, sut.ws_upgrade(s0, peer=wp))
        sut.settle()
        wp.paused = True
        wp.slow = True
        wp.send('2probe')
        sut.settle()
        sut.app_send(s0, 'bp%d' % n)
        sut.settle()
        side.collect()
        wp.paused = False
        sut.settle()
        wp.send('5')
        sut.settle()
        if wp.accepted and '3probe' in wp.frames:
            side.peers[0] = wp
        elif not wp.client_closed:
            side.peers.setdefault(('failed', n), wp)
            wp.close()
    elif step.startswith('upgrade-'):
        u = req(step, sut.ws_upgrade(s0))
        sut.settle()
        frames = {'upgrade-ok': ['2probe', '5'], 'upgrade-wrong-frame': ['2probe', '4x'], 'upgrade-garbage': ['zz'],
                  'upgrade-close-after-probe': ['2probe', None]}[step]
        for f in frames:
            if f is None:
                u.peer.close()
            else:
                u.peer.send(f)
            sut.settle()
        if step == 'upgrade-ok' and u.peer.accepted and '3probe' in u.peer.frames:
            side.peers[0] = u.peer
        elif not u.peer.client_closed:
            side.peers.setdefault(('failed', n), u.peer)
            u.peer.close()
    elif step.startswith('ws-'):
        p = side.peers.get(0)
        if p is None or p.client_closed:
            return
        if step == 'ws-drop':
            p.close()
        else:
            p.send({'ws-message': '4w%d' % n, 'ws-binary': b'\x01\x02', 'ws-close-packet': '1', 'ws-type8': '8', 'ws-pong': '3',
                    'ws-frame-over-limit': '4' + 'y' * LIMIT, 'ws-nonascii-frame': '4' + '\u0436' * 35, 'ws-empty-binary': b''}[step])
    elif step == 'advance-interval':
        sut.run(until=sut.k.now + PI)
    elif step == 'advance-past-bound':
        sut.run(until=sut.k.now + PI + 3 * PT + 1)
    elif step == 'bad-method':
        req(step, sut.request('PUT', 'transport=polling&sid=' + s0))
    elif step == 'bad-transport':
        req(step, sut.request('GET', 'transport=carrier-pigeon&EIO=4'))
    elif step == 'unknown-sid':
        req(step, sut.request('POST', 'transport=polling&sid=nobody', body=b'4x'))
    elif step == 'bad-version':
        req(step, sut.request('GET', 'transport=polling&EIO=3'))
    sut.settle()


def _differential(a, b, c, d, n):
    steps = [STEPS[x] for x in (a, b, c, d)[:n]]
    T, A = _Side(0), _Side(1)
    SIL = ('ping timeout', 'transport close', 'transport error')
    try:
        past_bound = {}
        silent = ({}, {})           # per side: sessions whose disconnect event appeared DURING a clock-advance step
        seen_disc = (set(), set())
        for i, step in enumerate(['open-polling'] + steps):
            _apply(T, step, i)
            _apply(A, step, i)
            if step == 'advance-past-bound':
                for j in range(len(T.sut.sids())):
                    past_bound[j] = True
            ot, oa = T.observe({}), A.observe({})
            for side, o in enumerate((ot, oa)):
                for j, evs in o['events'].items():
                    if any(k == 'disconnect' for k, a_ in evs) and j not in seen_disc[side]:
                        seen_disc[side].add(j)
                        if step.startswith('advance') and any(k == 'disconnect' and a_ in SIL for k, a_ in evs):
                            silent[side][j] = True
            # ends caused by silence: both sides only have to end the session within the heartbeat bound, and the
            # reason is not compared. A session that one side has ended for silence and the other not yet is skipped
            # at this observation point unless the bound has passed.
            skip = set()
            for j in set(silent[0]) | set(silent[1]):
                both = j in seen_disc[0] and j in seen_disc[1]
                if not both and not past_bound.get(j):
                    skip.add(j)
                elif both:
                    for o in (ot, oa):
                        # (the other side's end then races against its own silence detection: its reason is not compared either)
                        o['events'][j] = [(k, 'SILENCE' if k == 'disconnect' else a_) for k, a_ in o['events'].get(j, [])]
            for key in ('events', 'transport', 'messages', 'status', 'other_packets'):
                x, y = ot[key], oa[key]
                if key != 'status' and skip:
                    x = {j: v for j, v in x.items() if j not in skip}
                    y = {j: v for j, v in y.items() if j not in skip}
                if key == 'status':
                    # admission decisions: what each request issued IN THIS STEP was answered with by the end of the step
                    # (requests still in flight when their session ends are released at different times: not constrained)
                    cur = '%d:' % i
                    pairs = [(p, q) for p, q in zip(ot[key], oa[key]) if p[0].startswith(cur) and 'F6' not in (p[1], q[1])
                             and 'ws' not in (p[1], q[1])]
                    if skip:
                        pairs = []      # a request naming a session that only one side has already ended for silence
                    x, y = [p for p, q in pairs], [q for p, q in pairs]
                if x != y:
                    return fail(PROP, 'DIVERGENCE-' + key.upper(), 'after step %d of %r: threaded %r / asyncio %r' % (
                        i, ['open-polling'] + steps, x, y), step=step)
        return ''
    finally:
        T.sut.close()
        A.sut.close()


@cond(quick=dict(timeout=170, D=0, CMAX=22, parts=dict(A=list(range(len(STEPS))))), thorough=dict(timeout=1800, D=12, CMAX=len(STEPS), parts=dict(A=list(range(len(STEPS))))))
def histories(a: int, b: int, c: int, d: int, n: int) -> str:
    """
    pre: a == P.A and 0 <= b < len(STEPS) and 0 <= c < P.CMAX and 0 <= d <= P.D and 1 <= n <= 4
    pre: (n >= 4 or d == 0) and (n >= 3 or c == 0) and (n >= 2 or b == 0) and (n <= 3 or P.D > 0)
    post: _ == ''
    """
    return verdict(untraced(_differential, a, b, c, d, n))


from vf.validate.stubs import ALL as VALIDATE  # noqa: E402  (stub-vs-real conformance, run before the obligations)
