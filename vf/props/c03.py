"""C03 Server-to-client messages: exactly once, in order, one transport, across upgrade."""
from vf.rt import P, cond, verdict, fail, untraced
from vf.props.common import mk, packets_of, WsPeer, SIM_STUBS, SIM_OUTSIDE
from vf.oracles.wire import decode_packet

PROP = 'C03'
EXPLANATION = ('Whole-server level, both servers: application send() calls (text, JSON and binary payloads carrying their send '
               'index) are placed before the poll, while a poll is pending, after the upgrade socket opened, between probe and '
               'UPGRADE and after it, with symbolic counts (one slot takes bursts of up to 20), poll-pending / late-poll flags, the '
               'handshake outcome (completes / wrong frame / socket closes), a second session receiving interleaved sends, and the '
               'first scheduling decisions of the kernel; single-transport sessions also with a tiny max_http_buffer_size (backlog larger than '
               'the announced maxPayload) and, on WebSocket, with back-pressure (the client stops reading while sends are made); '
               'the monitor looks only at what the simulated client receives.')
STUBS = SIM_STUBS
OUTSIDE = SIM_OUTSIDE + ['more than one send per slot except the burst slot (<= 20)', 'more than 2 sessions', 'more than 3 symbolic scheduling decisions']
NOT_CONSTRAINED = []
ASSUMPTIONS = ['cooperative scheduling only; send order = the order in which the send() calls are made']


def _payload(tag, i):
    k = i % 3
    if k == 0:
        return '%s-%d' % (tag, i)
    if k == 1:
        return {'tag': tag, 'n': i}
    return ('%s-%d' % (tag, i)).encode('ascii')


def _ident(data):
    """(tag, index) of a delivered payload, decoded independently."""
    if isinstance(data, bytes):
        t, i = data.decode('ascii').rsplit('-', 1)
        return t, int(i)
    if data[:1] == '{':
        import json
        d = json.loads(data)
        return d['tag'], d['n']
    t, i = data.rsplit('-', 1)
    return t, int(i)


class _Sess:
    def __init__(self, sut, sid, tag):
        self.sut, self.sid, self.tag = sut, sid, tag
        self.n = 0
        self.got = []          # (transport, ident) in arrival order

    def send(self, count):
        for _ in range(count):
            self.sut.app_send(self.sid, _payload(self.tag, self.n))
            self.n += 1
            self.sut.settle()

    def take_poll(self, r):
        pk = packets_of(self.sut, r)
        for t, d in pk:
            if t == 4:
                self.got.append(('polling', _ident(d)))
        return pk

    def take_frames(self, peer, start=0):
        for f in peer.frames[start:]:
            t, d = decode_packet(f)
            if t == 4:
                self.got.append(('websocket', _ident(d)))

    def verdict(self, st, complete):
        ids = [x for _, x in self.got]
        if any(t != self.tag for t, _ in ids):
            return fail(PROP, 'FOREIGN-MESSAGE', 'session %s received %r' % (self.tag, ids), **st)
        seq = [i for _, i in ids]
        if len(set(seq)) != len(seq):
            return fail(PROP, 'DUPLICATE', 'session %s received %r' % (self.tag, seq), **st)
        if seq != sorted(seq):
            return fail(PROP, 'ORDER', 'session %s received %r (sent 0..%d in order)' % (self.tag, seq, self.n - 1), **st)
        if complete and seq != list(range(self.n)):
            return fail(PROP, 'LOST', 'session %s received %r of %d messages although the client kept reading' % (self.tag, seq, self.n), **st)
        return ''


def _upgrade_scenario(fl, n0, n1, n2, n3, n4, pending, late, outcome, two, c0, c1, c2, bp=False):
    sut = mk(fl, async_handlers=False)
    try:
        sut.open('polling')
        sut.settle()
        A = _Sess(sut, sut.sids()[0], 'a')
        B = None
        if two:
            sut.open('polling')
            sut.settle()
            B = _Sess(sut, sut.sids()[1], 'b')
        st = dict(flavour=sut.flavour, outcome=('complete', 'wrong-frame', 'close', 'accept-fails')[outcome])

        def both(n):
            A.send(n)
            if B:
                B.send(1 if n else 0)
        both(n0)
        polls = []
        if pending:
            g = sut.get(A.sid)
            sut.settle()
            polls.append(('pre', g, n0 + 0, A.n))
        sut.k.choices = [c0, c1, c2]
        both(n1)
        for tag, g, _, queued_at_start in polls:
            # a poll that found something queued (or got the burst) must already be answered
            if not g.done:
                if n0 or n1:
                    return fail(PROP, 'POLL-NOT-ANSWERED', 'pending poll still open although %d messages are queued' % (n0 + n1), **st)
        from vf.props.common import WsPeer as _WsPeer
        wp = _WsPeer()
        wp.fail_accept = outcome == 3
        u = sut.ws_upgrade(A.sid, peer=wp)
        sut.settle()
        both(n2)
        if outcome != 3:
            u.peer.send('2probe')
            sut.settle()
            if u.peer.frames[:1] != ['3probe']:
                return fail(PROP, 'PROBE', 'server answered %r' % (u.peer.frames,), **st)
        both(n3)
        late_poll = None
        if late and outcome != 3:
            late_poll = sut.get(A.sid)
            sut.settle()
        if outcome == 3:
            pass
        elif outcome == 0:
            # ``bp``: back-pressure on the new WebSocket - the server's writes do not complete until the client reads again,
            # which it does only after the application has made its next sends
            u.peer.paused = bool(bp)
            u.peer.slow = bool(bp)      # once the client reads again every write is a scheduling point
            u.peer.send('5')
        elif outcome == 1:
            u.peer.send('4nope')
        else:
            u.peer.close()
        sut.settle()
        both(n4)
        if outcome == 0 and bp:
            u.peer.paused = False
            sut.settle()
        # ---- collect what the client saw
        for tag, g, _, _ in polls:
            if not g.done and outcome == 3:
                # the upgrade never started (accept failed): a poll that is still open is simply waiting for packets
                if A.n > 0 and n0 + n1 + n2 + n3 + n4 > 0 and not (n0 + n1 > 0):
                    return fail(PROP, 'POLL-NOT-ANSWERED', 'messages were queued but the pending poll is still open', **st)
                if n0 + n1 == 0 and n2 + n3 + n4 == 0:
                    continue
            if not g.done:
                return fail(PROP, 'POLL-NOT-RELEASED', 'poll pending since before the upgrade was never answered', **st)
            if sut.status(g) != 200:
                return fail(PROP, 'POLL-STATUS', 'pending poll answered %r' % sut.status(g), **st)
            A.take_poll(g)
        if late_poll is not None:
            if not late_poll.done or sut.status(late_poll) != 200:
                return fail(PROP, 'LATE-POLL', 'late poll: done=%s status=%r' % (late_poll.done, sut.status(late_poll) if late_poll.done else None), **st)
            types = [t for t, d in packets_of(sut, late_poll)]
            if types != [6]:
                return fail(PROP, 'LATE-POLL-NOT-NOOP', 'a poll started after the upgrade began returned packet types %r' % (types,), **st)
        if outcome == 0:
            if sut.transport(A.sid) != 'websocket':
                return fail(PROP, 'UPGRADE', 'handshake completed but transport is %s' % sut.transport(A.sid), **st)
            A.take_frames(u.peer, 1)
        else:
            if not u.peer.client_closed:
                u.peer.close()
                sut.settle()
            # keep reading by polling until nothing more comes
            for _ in range(4):
                g = sut.get(A.sid)
                sut.settle()
                if not g.done:
                    break
                if sut.status(g) != 200:
                    return fail(PROP, 'POLL-STATUS', 'poll after failed upgrade answered %r' % sut.status(g), **st)
                A.take_poll(g)
        m = A.verdict(st, True)
        if m:
            return m
        # one transport per message
        if outcome == 0:
            pass
        if B:
            for _ in range(3):
                g = sut.get(B.sid)
                sut.settle()
                if not g.done:
                    break
                B.take_poll(g)
            m = B.verdict(st, True)
            if m:
                return m
        return ''
    finally:
        sut.close()


@cond(quick=dict(N1=20, timeout=170, parts=dict(FL=[0, 1], OUT=[0, 1, 2, 3], PEND=[0, 1])), thorough=dict(N1=24, timeout=1200, parts=dict(FL=[0, 1], OUT=[0, 1, 2, 3], TWO=[0, 1], PEND=[0, 1])))
def across_upgrade(fl: int, n0: int, n1: int, n2: int, n3: int, n4: int, pending: bool, late: bool, outcome: int,
                   two: bool, c0: int, c1: int) -> str:
    """
    pre: fl == P.FL and outcome == P.OUT and 0 <= n0 <= 1 and 0 <= n1 <= P.N1 and 0 <= n2 <= 1 and 0 <= n3 <= 1 and 0 <= n4 <= 1
    pre: 0 <= c0 <= 1 and 0 <= c1 <= 1 and (n1 <= 2 or n1 >= 16) and (n1 <= 2 or (c0 == 0 and c1 == 0 and not two))
    pre: (not hasattr(P, 'TWO') or two == bool(P.TWO)) and pending == bool(P.PEND)
    post: _ == ''
    """
    return verdict(untraced(_upgrade_scenario, fl, n0, n1, n2, n3, n4, pending, late, outcome, two, c0, c1, 0))


@cond(quick=dict(timeout=170, parts=dict(FL=[0, 1])), thorough=dict(timeout=600, parts=dict(FL=[0, 1])))
def across_upgrade_backpressure(fl: int, n0: int, n1: int, n2: int, n3: int, n4: int, pending: bool, late: bool, two: bool,
                                c0: int, c1: int) -> str:
    """
    pre: fl == P.FL and 0 <= n0 <= 1 and 0 <= n1 <= 2 and 0 <= n2 <= 1 and 0 <= n3 <= 1 and 0 <= n4 <= 2 and 0 <= c0 <= 1 and 0 <= c1 <= 1
    post: _ == ''
    """
    # the handshake completes while the new WebSocket is under back-pressure: the server's writes (NOOP, the packets held back
    # during the upgrade) stay in flight while the application makes its next sends
    # (c0, c1: the first two scheduling decisions among ready tasks - which of the writer and the sender runs first matters)
    return verdict(untraced(_upgrade_scenario, fl, n0, n1, n2, n3, n4, pending, late, 0, two, c0, c1, 0, True))


def _single_transport(fl, ws, n_a, n_b, n_c, overlap, small=False):
    """Polling-only or WebSocket-only session: sends interleaved with reads, optional overlapping second poll.
    ``small``: the server is configured with a tiny max_http_buffer_size (an INBOUND limit, announced as maxPayload): the
    backlog between two reads exceeds it; outbound delivery must be unaffected."""
    sut = mk(fl, async_handlers=False, **({'max_http_buffer_size': 40} if small else {}))
    try:
        r = sut.open('websocket' if ws else 'polling')
        sut.settle()
        A = _Sess(sut, sut.sids()[0], 'a')
        st = dict(flavour=sut.flavour, transport='websocket' if ws else 'polling')
        if ws:
            A.send(n_a)
            # ``overlap`` on a WebSocket session: back-pressure - the client stops reading while the n_b sends are made (the
            # server's write of the next frame does not complete) and resumes afterwards
            r.peer.paused = bool(overlap)
            r.peer.slow = bool(overlap)
            A.send(n_b)
            r.peer.paused = False
            sut.settle()
            A.send(n_c)
            A.take_frames(r.peer, 1)
            if sut.transport(A.sid) != 'websocket':
                return fail(PROP, 'WS-ONLY', 'transport %s' % sut.transport(A.sid), **st)
            return A.verdict(st, True)
        A.send(n_a)
        g1 = sut.get(A.sid)
        sut.settle()
        if n_a:
            if not g1.done:
                return fail(PROP, 'POLL-NOT-ANSWERED', 'poll with %d queued messages not answered' % n_a, **st)
            pk = A.take_poll(g1)
            if len([1 for t, d in pk if t == 4]) != n_a:
                return fail(PROP, 'POLL-RETURNS-ALL', 'poll returned %d of the %d messages queued at that moment' % (
                    len([1 for t, d in pk if t == 4]), n_a), **st)
            g1 = sut.get(A.sid)
            sut.settle()
        g2 = None
        if overlap:
            g2 = sut.get(A.sid)
            sut.settle()
        held = [g for g in (g1, g2) if g is not None]

        def collect():
            for g in list(held):
                if g.done:
                    held.remove(g)
                    if sut.status(g) == 200:
                        A.take_poll(g)
        A.send(n_b)
        collect()
        A.send(n_c)
        collect()
        for _ in range(4):
            g = sut.get(A.sid)
            sut.settle()
            collect()
            if not g.done:
                held.append(g)
                break
            if sut.status(g) != 200:
                break
            A.take_poll(g)
        return A.verdict(st, True)
    finally:
        sut.close()


@cond(quick=dict(N=20, timeout=170, parts=dict(FL=[0, 1])), thorough=dict(N=40, timeout=900, parts=dict(FL=[0, 1])))
def single_transport(fl: int, ws: bool, n_a: int, n_b: int, n_c: int, overlap: bool, small: bool) -> str:
    """
    pre: fl == P.FL and 0 <= n_a <= P.N and 0 <= n_b <= 3 and 0 <= n_c <= 2 and (n_a <= 3 or n_a >= 15)
    post: _ == ''
    """
    return verdict(untraced(_single_transport, fl, ws, n_a, n_b, n_c, overlap, small))


from vf.validate.stubs import ALL as VALIDATE  # noqa: E402  (stub-vs-real conformance, run before the obligations)


def _text_to_client(fl, ws, text, second):
    """An application send() of an arbitrary (symbolic) text arrives at the client as exactly that text."""
    sut = mk(fl, async_handlers=False)
    try:
        r = sut.open('websocket' if ws else 'polling')
        sut.settle()
        sid = sut.sids()[0]
        sut.app_send(sid, text)
        if second:
            sut.app_send(sid, 'tail')
        sut.settle()
        if ws:
            frames = r.peer.frames[1:]
            got = [f[1:] for f in frames if isinstance(f, str) and f[:1] == '4']
        else:
            g = sut.get(sid)
            sut.settle()
            body = sut.body(g).decode('utf-8')
            # independent split: the separator cannot occur inside the payload here
            got = [p[1:] for p in body.split('\x1e') if p[:1] == '4']
        want = [text] + (['tail'] if second else [])
        if got != want:
            return fail(PROP, 'PAYLOAD-UNCHANGED', 'send(%r) arrived as %r' % (text, got), flavour=sut.flavour,
                        transport='websocket' if ws else 'polling')
        return ''
    finally:
        sut.close()


@cond(quick=dict(S=3, SP=3, timeout=170, parts=dict(FL=[0, 1], WS=[0, 1])), thorough=dict(S=5, SP=4, timeout=1200, parts=dict(FL=[0, 1], WS=[0, 1])))
def symbolic_text_to_client(fl: int, ws: int, text: str, second: bool) -> str:
    """
    pre: fl == P.FL and ws == P.WS and len(text) <= (P.S if P.WS else P.SP)
    post: _ == ''
    """
    if '\x1e' in text:
        return ''
    return verdict(_text_to_client(fl, bool(ws), text, second))
