"""C07 Heartbeat: periodic PING, dead peers dropped in bounded time, live peers never."""
from vf.rt import P, cond, verdict, fail, untraced
from vf.props.common import mk, packets_of, WsPeer, SIM_STUBS, SIM_OUTSIDE
from vf.oracles.wire import decode_packet

PROP = 'C07'
EXPLANATION = ('Whole-server level on a virtual clock: the delay of each PONG after its PING, the time of an application send() and the '
               'phase of the session relative to the monitor sweep range over every integer second of the cycle (solver-enumerated '
               'grid; each tuple is run concretely), plus one condition in which the time of a send() after an unanswered PING is a '
               'genuinely symbolic unbounded integer; '
               '(ping_interval, ping_timeout) come from a table that includes equal, inverted and widely different values; both '
               'servers, polling and WebSocket, monitoring on and off. Every comparison of a time against a deadline in the server '
               '(and in the kernel) splits the symbolic times exactly at the boundary.')
STUBS = SIM_STUBS
OUTSIDE = SIM_OUTSIDE + ['(ping_interval, ping_timeout) pairs outside the table', 'more than two heartbeat cycles', 'more than 2 sessions',
                         'fractional times (the socket code is unit-agnostic; IEEE rounding of time.time() differences is outside the claim)']
NOT_CONSTRAINED = ['a PONG arriving EXACTLY ping_timeout after the PING may lose the tie against the pending poll / WebSocket read timeout '
                   '(ping_interval + ping_timeout) that expires at the same virtual instant; a "ping timeout" verdict is still judged there']
ASSUMPTIONS = ['cooperative scheduling only; virtual integer time']

CFG = ((25, 20), (1, 1), (2, 5), (5, 2), (5, 1), (8, 2), (3, 1), (4, 4))


class _Client:
    """Scripted peer on polling or WebSocket; records (time, packet type) of everything received."""
    def __init__(self, sut, ws):
        self.sut, self.ws = sut, ws
        self.rx = []
        self.poll = None
        if ws:
            r = sut.open('websocket')
            sut.settle()
            self.peer = r.peer
            self.sid = sut.sids()[-1]
            self.seen = 1
        else:
            sut.open('polling')
            sut.settle()
            self.sid = sut.sids()[-1]
            self.repoll()

    def repoll(self):
        if not self.ws and (self.poll is None or self.poll.done):
            self.poll = self.sut.get(self.sid)

    def collect(self):
        """Pull what has arrived (called after every kernel run)."""
        sut = self.sut
        if self.ws:
            for f in self.peer.frames[self.seen:]:
                self.rx.append((sut.k.now, decode_packet(f)[0]))
            self.seen = len(self.peer.frames)
        elif self.poll is not None and self.poll.done:
            if sut.status(self.poll) == 200:
                for t, d in packets_of(sut, self.poll):
                    self.rx.append((sut.k.now, t))
                self.poll = None
                self.repoll()
                sut.settle()
            else:
                self.rx.append((sut.k.now, 'poll-error-%s' % sut.status(self.poll)))
                self.poll = None

    def pong(self):
        if self.ws:
            self.peer.send('3')
        else:
            self.sut.post(self.sid, '3')
        self.sut.settle()
        self.collect()


def _run_to(sut, cl, t, also=None):
    """Advance the virtual clock to t one second at a time so that arrival times are observed exactly; ``also`` is a
    second client that is alive and answers every PING at once."""
    while sut.k.now < t:
        sut.run(until=sut.k.now + 1)
        cl.collect()
        if also is not None:
            _serve(also)


def _serve(other):
    n = len([1 for t, ty in other.rx if ty == 2])
    other.collect()
    if len([1 for t, ty in other.rx if ty == 2]) > n:
        other.pong()


def _tie(sut, delays, pt):
    """A PONG sent EXACTLY ping_timeout after its PING reaches the server at the same virtual instant at which the
    pending poll / the WebSocket read (both armed for ping_interval + ping_timeout) expires: which of the two simultaneous
    events wins is a tie of the integer clock, not a statement about the code. Only a 'ping timeout' verdict - the
    server's own deadline arithmetic - is judged at that boundary."""
    reasons = [a for k, sid, a in sut.events if k == 'disconnect']
    return any(d == pt for d in delays) and all(r in ('transport error', 'transport close') for r in reasons)


def _live_peer(fl, ws, ci, d1, d2, s, monitor, do_send):
    pi, pt = CFG[ci]
    sut = mk(fl, async_handlers=False, ping_interval=pi, ping_timeout=pt, monitor_clients=monitor)
    try:
        t0 = sut.k.now
        cl = _Client(sut, ws)
        st = dict(flavour=sut.flavour, transport='websocket' if ws else 'polling', cfg='%d/%d' % (pi, pt), monitor=bool(monitor))
        last = t0
        for cycle, d in ((1, d1), (2, d2)):
            # (a) the PING comes exactly ping_interval after OPEN / after the previous PONG
            _run_to(sut, cl, last + pi)
            pings = [t for t, ty in cl.rx if ty == 2]
            if [1 for k, sid, a in sut.events if k == 'disconnect'] and _tie(sut, (d1, d2), pt):
                return ''
            if len(pings) != cycle or pings[-1] != last + pi:
                return fail(PROP, 'PING-SCHEDULE', 'cycle %d: PINGs received at %r, expected one at %d (OPEN/PONG at %d, interval %d)' % (
                    cycle, [t - t0 for t in pings], last + pi - t0, last - t0, pi), **st)
            tping = last + pi
            sent = False
            if do_send and cycle == 1 and s <= d:
                _run_to(sut, cl, tping + s)
                sut.app_send(cl.sid, 'data')
                sut.settle()
                cl.collect()
                sent = True
            _run_to(sut, cl, tping + d)
            if [1 for k, sid, a in sut.events if k == 'disconnect']:
                if _tie(sut, (d1, d2), pt):
                    return ''
                return fail(PROP, 'LIVE-PEER-DROPPED', 'cycle %d: PONG due %d after the PING (timeout %d) but the session was '
                            'disconnected (%r) before it was sent' % (cycle, d, pt, [a for k, sid, a in sut.events if k == 'disconnect']), **st)
            cl.pong()
            last = tping + d
            if do_send and cycle == 1 and not sent:
                _run_to(sut, cl, tping + s) if tping + s <= last + pi else None
                if sut.k.now == tping + s:
                    sut.app_send(cl.sid, 'data')
                    sut.settle()
                    cl.collect()
                    if tping + s == last + pi:
                        pass
        _run_to(sut, cl, last + 1)
        disc = [a for k, sid, a in sut.events if k == 'disconnect']
        if disc:
            if _tie(sut, (d1, d2), pt):
                return ''
            return fail(PROP, 'LIVE-PEER-DROPPED', 'PONG delays %d, %d <= timeout %d, send at +%d: disconnected with %r' % (d1, d2, pt, s, disc), **st)
        if do_send and len([1 for t, ty in cl.rx if ty == 4]) > 1:
            return fail(PROP, 'DUPLICATE-DATA', 'message delivered %d times' % len([1 for t, ty in cl.rx if ty == 4]), **st)
        return ''
    finally:
        sut.close()


@cond(quick=dict(timeout=170, parts=dict(FL=[0, 1], C=[1, 3, 4, 5])),
      thorough=dict(timeout=1200, parts=dict(FL=[0, 1], C=list(range(len(CFG))))))
def live_peer_never_dropped(fl: int, ws: int, ci: int, d1: int, d2: int, s: int, monitor: bool, do_send: bool) -> str:
    """
    pre: fl == P.FL and 0 <= ws <= 1 and ci == P.C and 0 <= d1 <= CFG[P.C][1] and 0 <= d2 <= CFG[P.C][1] and 0 <= s <= CFG[P.C][0] + CFG[P.C][1]
    pre: do_send or s == 0
    pre: CFG[P.C][1] <= 5 or (d1 % 5 == 0 and d2 % 10 == 0 and s % 5 == 0)
    post: _ == ''
    """
    return verdict(untraced(_live_peer, fl, ws, ci, d1, d2, s, monitor, do_send))


def _slow_upgrade(fl, ci, start, dur, monitor):
    """A polling client starts the WebSocket upgrade ``start`` seconds after its OPEN and takes ``dur`` seconds to finish the
    handshake (slow network: probe answered, UPGRADE frame late), so that a PING may fall due while the session is in the
    middle of it. The peer is alive: it answers every PING it is handed at once. The heartbeat goes on: a PING reaches the
    client no later than the end of the handshake (or ping_interval after the OPEN, whichever is later), the next one
    ping_interval after its PONG, and the session is never dropped."""
    pi, pt = CFG[ci]
    sut = mk(fl, async_handlers=False, ping_interval=pi, ping_timeout=pt, monitor_clients=monitor)
    try:
        t0 = sut.k.now
        cl = _Client(sut, False)
        st = dict(flavour=sut.flavour, cfg='%d/%d' % (pi, pt), monitor=bool(monitor), slow_upgrade=True)
        if start + dur >= pi + pt or start > pi:
            return ''           # the PONG could not reach the server within ping_timeout of the PING: not a live peer
        _run_to(sut, cl, t0 + start)
        if [1 for t, ty in cl.rx if ty == 2]:
            cl.pong()
            return ''           # the PING came before the upgrade began: the plain live-peer condition covers it
        u = sut.ws_upgrade(cl.sid)
        sut.settle()
        u.peer.send('2probe')
        sut.settle()
        cl.collect()
        _run_to(sut, cl, t0 + start + dur)
        u.peer.send('5')
        sut.settle()
        cl.collect()
        if sut.transport(cl.sid) != 'websocket':
            return ''           # (C06 decides the handshake itself)
        cl.ws, cl.peer, cl.seen, cl.poll = True, u.peer, 1, None
        cl.collect()
        tc = sut.k.now
        _run_to(sut, cl, max(tc, t0 + pi))
        pings = [t for t, ty in cl.rx if ty == 2]
        disc = [a for k, sid, a in sut.events if k == 'disconnect']
        if disc:
            return fail(PROP, 'LIVE-PEER-DROPPED', 'upgrade from +%d to +%d: session dropped (%r) although no PING had reached the peer yet' % (
                start, start + dur, disc), **st)
        if len(pings) != 1:
            return fail(PROP, 'PING-SCHEDULE', 'upgrade from +%d to +%d (interval %d): PINGs received at %r, expected exactly one by +%d' % (
                start, start + dur, pi, [t - t0 for t in pings], max(tc, t0 + pi) - t0), **st)
        cl.pong()
        last = sut.k.now
        _run_to(sut, cl, last + pi)
        pings = [t for t, ty in cl.rx if ty == 2]
        disc = [a for k, sid, a in sut.events if k == 'disconnect']
        if disc:
            return fail(PROP, 'LIVE-PEER-DROPPED', 'upgrade from +%d to +%d, PONG sent at once: dropped with %r' % (start, start + dur, disc), **st)
        if len(pings) != 2 or pings[-1] != last + pi:
            return fail(PROP, 'PING-SCHEDULE', 'after the slow upgrade: PONG at +%d, PINGs at %r, expected the next at +%d' % (
                last - t0, [t - t0 for t in pings], last + pi - t0), **st)
        cl.pong()
        _run_to(sut, cl, sut.k.now + max(0, pi - 1))        # (stops before the next PING, which nobody would answer, is due)
        disc = [a for k, sid, a in sut.events if k == 'disconnect']
        if disc:
            return fail(PROP, 'LIVE-PEER-DROPPED', 'after the slow upgrade and two answered PINGs: dropped with %r' % (disc,), **st)
        return ''
    finally:
        sut.close()


@cond(quick=dict(timeout=170, parts=dict(FL=[0, 1])), thorough=dict(timeout=600, parts=dict(FL=[0, 1])))
def heartbeat_across_slow_upgrade(fl: int, ci: int, start: int, dur: int, monitor: bool) -> str:
    """
    pre: fl == P.FL and 1 <= ci < len(CFG) and 0 <= start <= 8 and 0 <= dur <= 12
    post: _ == ''
    """
    return verdict(untraced(_slow_upgrade, fl, ci, start, dur, monitor))


def _dead_peer(fl, ws, ci, answered, d, monitor, send_at1, phase, polls, silent_upgrade=0):
    send_at = send_at1 - 1
    """The peer answers ``answered`` PINGs (0 or 1, after delay d <= timeout) and then goes silent."""
    pi, pt = CFG[ci]
    sut = mk(fl, async_handlers=False, ping_interval=pi, ping_timeout=pt, monitor_clients=monitor)
    try:
        other = None
        if phase:
            # another session opened earlier shifts the phase of the monitor sweep relative to this session
            other = _Client(sut, False)
            t_phase = sut.k.now + phase
            while sut.k.now < t_phase:
                sut.run(until=sut.k.now + 1)
                _serve(other)           # (it is alive: a PING that reaches it during this stretch is answered at once)
        t0 = sut.k.now
        cl = _Client(sut, ws)
        if not polls and not ws and cl.poll is not None:
            pass
        st = dict(flavour=sut.flavour, transport='websocket' if ws else 'polling', cfg='%d/%d' % (pi, pt), monitor=bool(monitor))
        last = t0
        if answered:
            _run_to(sut, cl, t0 + pi + d, other)
            cl.pong()
            last = t0 + pi + d
        if silent_upgrade and not ws:
            # the peer opens the upgrade WebSocket and then goes silent INSIDE the handshake (1: before the probe, 2: after
            # the probe was answered); the socket is never reported closed
            u_ = sut.ws_upgrade(cl.sid)
            sut.settle()
            if silent_upgrade == 2:
                u_.peer.send('2probe')
                sut.settle()
            cl.collect()
            cl.poll = None
            st['silent_in_upgrade'] = silent_upgrade
        # silence from now on (a polling client may keep polling, it just never PONGs)
        deadline = last + pi + pt               # the PING goes out at last+pi; its PONG is due ping_timeout later
        bound = last + pi + 3 * pt
        horizon = bound + pi + pt + 2
        sent = False
        t_disc = None
        while sut.k.now < horizon:
            sut.run(until=sut.k.now + 1)
            cl.collect()
            if other is not None:
                _serve(other)
            if not polls and not ws:
                cl.poll = None if (cl.poll is None or cl.poll.done) else cl.poll
            mine = [a for k, sid, a in sut.events if k == 'disconnect' and sid == cl.sid]
            if mine and t_disc is None:
                t_disc = sut.k.now
            if send_at >= 0 and not sent and sut.k.now >= deadline + 1 + send_at and t_disc is None:
                sut.app_send(cl.sid, 'are-you-there')
                sut.settle()
                sent = True
                mine = [a for k, sid, a in sut.events if k == 'disconnect' and sid == cl.sid]
                if not mine:
                    return fail(PROP, 'SEND-AFTER-DEADLINE', 'send() %d after the PONG deadline did not end the session' % (sut.k.now - deadline), **st)
                t_disc = sut.k.now
        mine = [a for k, sid, a in sut.events if k == 'disconnect' and sid == cl.sid]
        if len(mine) > 1:
            return fail(PROP, 'TIMEOUT-ONCE', 'disconnect events %r' % (mine,), **st)
        polling_kept = (not ws) and polls
        if monitor or polling_kept or ws:
            # monitoring on: bound; a polling client that keeps polling is answered with an error at interval+timeout;
            # a silent WebSocket is closed by the read timeout (asyncio) - all inside the same bound
            if (monitor or (ws and fl == 1) or polling_kept) and not mine:
                return fail(PROP, 'DEAD-PEER-NOT-DROPPED', 'last PONG/OPEN at +%d, silent since: no timeout disconnect by +%d (bound +%d)' % (
                    last - t0, horizon - t0, bound - t0), **st)
            if mine and monitor and t_disc > bound:
                return fail(PROP, 'DEAD-PEER-BOUND', 'last PONG/OPEN at +%d: disconnected at +%d, bound interval+3*timeout = +%d' % (
                    last - t0, t_disc - t0, bound - t0), **st)
        if mine and mine[0] not in ('ping timeout', 'transport close', 'transport error'):
            return fail(PROP, 'TIMEOUT-REASON', 'reason %r' % mine[0], **st)
        if mine and mine[0] == 'transport error' and ws:
            return fail(PROP, 'TIMEOUT-REASON', 'reason %r on websocket' % mine[0], **st)
        if polling_kept and not [1 for t, ty in cl.rx if isinstance(ty, str)] and not mine:
            return fail(PROP, 'POLL-HELD-FOREVER', 'an unanswered poll was neither answered with an error nor the session closed', **st)
        if other is not None and [1 for k, sid, a in sut.events if k == 'disconnect' and sid == other.sid and a == 'ping timeout']:
            return fail(PROP, 'LIVE-PEER-DROPPED', 'the other, answering session was disconnected', **st)
        return ''
    finally:
        sut.close()


@cond(quick=dict(timeout=170, parts=dict(FL=[0, 1], C=[1, 3, 4, 5])),
      thorough=dict(timeout=1200, parts=dict(FL=[0, 1], C=list(range(len(CFG))))))
def dead_peer_dropped_in_bound(fl: int, ws: int, ci: int, answered: bool, d: int, monitor: bool, send_at: int, phase: int, polls: bool) -> str:
    """
    pre: fl == P.FL and 0 <= ws <= 1 and ci == P.C and 0 <= d <= CFG[P.C][1] and -1 <= send_at <= 2 and 0 <= phase <= CFG[P.C][1]
    pre: (answered or d == 0) and (monitor or phase == 0) and (not ws or polls)
    post: _ == ''
    """
    return verdict(untraced(_dead_peer, fl, ws, ci, answered, d, monitor, send_at + 1, phase, polls))


@cond(quick=dict(timeout=170, parts=dict(FL=[0, 1])), thorough=dict(timeout=600, parts=dict(FL=[0, 1])))
def dead_peer_silent_inside_upgrade(fl: int, ci: int, answered: bool, d: int, monitor: bool, send_at: int, stage: int) -> str:
    """
    pre: fl == P.FL and 1 <= ci < len(CFG) and 0 <= d <= 2 and -1 <= send_at <= 2 and 1 <= stage <= 2 and (answered or d == 0)
    post: _ == ''
    """
    return verdict(untraced(_silent_upgrade_case, fl, ci, answered, d, monitor, send_at + 1, stage))


def _silent_upgrade_case(fl, ci, answered, d, monitor, send_at1, stage):
    if d > CFG[ci][1]:
        return ''
    return _dead_peer(fl, 0, ci, answered, d, monitor, send_at1, 0, False, stage)


def _send_vs_deadline(fl, ws, ci, x):
    """Peer never answers the first PING; the application sends x seconds after that PING (x symbolic, unbounded)."""
    pi, pt = CFG[ci]
    sut = mk(fl, async_handlers=False, ping_interval=pi, ping_timeout=pt, monitor_clients=False)
    try:
        t0 = sut.k.now
        if ws:
            r = sut.open('websocket')
        else:
            r = sut.open('polling')
        sut.settle()
        sid = sut.sids()[0]
        sut.run(until=t0 + pi + x)
        early = [a for k, s_, a in sut.events if k == 'disconnect']
        sut.app_send(sid, 'ping?')
        sut.settle()
        disc = [a for k, s_, a in sut.events if k == 'disconnect']
        st = dict(flavour=sut.flavour, transport='websocket' if ws else 'polling', cfg='%d/%d' % (pi, pt))
        if x > pt:
            if not disc:
                return fail(PROP, 'SEND-AFTER-DEADLINE', 'send() %d after an unanswered PING (timeout %d) did not end the session' % (x, pt), **st)
            if disc[0] not in ('ping timeout', 'transport close'):
                return fail(PROP, 'TIMEOUT-REASON', 'reason %r' % disc[0], **st)
        else:
            if 'ping timeout' in disc:
                return fail(PROP, 'EARLY-TIMEOUT', 'send() %d after the PING (timeout %d) ended the session with ping timeout' % (x, pt), **st)
        return ''
    finally:
        sut.close()


@cond(quick=dict(timeout=170, parts=dict(FL=[0, 1], WS=[0, 1])), thorough=dict(timeout=600, parts=dict(FL=[0, 1], WS=[0, 1])))
def send_relative_to_deadline(fl: int, ws: int, ci: int, x: int) -> str:
    """
    pre: fl == P.FL and ws == P.WS and 0 <= ci < len(CFG) and x >= 0
    post: _ == ''
    """
    # x is an unbounded symbolic integer: the server's "now - last_ping > ping_timeout" splits it exactly at the deadline
    return verdict(_send_vs_deadline(fl, bool(ws), ci, x))


from vf.validate.stubs import ALL as VALIDATE  # noqa: E402  (stub-vs-real conformance, run before the obligations)
