"""C15 Every request and API call completes with a well-formed gateway response."""
import re

from vf.rt import P, cond, verdict, fail, untraced
from vf.props.common import mk, WsPeer, SIM_STUBS, SIM_OUTSIDE, blocked_in_close_join
from vf.props import c12

PROP = 'C15'
EXPLANATION = ('Whole-server level: the request cross product of C12 (admitted AND refused requests) plus malformed POST '
               'bodies is issued in every session state, with and without a poll pending; monitors check the WSGI / ASGI '
               'gateway grammar, the status set, that no exception escapes and that the request or API task has finished '
               'when the kernel is quiescent at now + ping_interval + ping_timeout + 1 (virtual seconds).')
STUBS = SIM_STUBS
OUTSIDE = SIM_OUTSIDE + ['header / query / body values outside the tables', 'histories longer than the state-building prefixes']
NOT_CONSTRAINED = ['accepted WebSocket requests stay open by design and are only checked for the event grammar']
ASSUMPTIONS = ['cooperative scheduling only', 'an ASGI server delivers websocket.disconnect after the peer closed']

BODIES = (b'4ok', b'', b'x', b'4a\x1e', b'\x1e', b'bA', b'b!!!!', b'4' + b'[' * 400, b'9', b'2', b'0', b'6', b'1', b'3\x1e5',
          b'\xff\xfe', b'4a' + b'\x1e4a' * 16, b'4a' + b'\x1e4a' * 99, b'd=4x', b'd=', b'41\x1e1\x1e41')

STATUS_LINE = re.compile(r'^\d{3} \S.*$')


def _wsgi_monitor(sut, r):
    if len(r.sr_calls) != 1:
        return 'start_response called %d times' % len(r.sr_calls)
    status, headers = r.sr_calls[0]
    if not isinstance(status, str) or not STATUS_LINE.match(status):
        return 'status line %r' % (status,)
    if not isinstance(headers, list) or any(not (isinstance(h, tuple) and len(h) == 2 and isinstance(h[0], str)
                                                  and isinstance(h[1], str)) for h in headers):
        return 'headers %r' % (headers,)
    try:
        chunks = list(r.ret)
    except TypeError:
        return 'body is not iterable: %r' % (r.ret,)
    if any(not isinstance(c, bytes) for c in chunks):
        return 'body chunks %r' % ([type(c).__name__ for c in chunks],)
    return ''


def _asgi_http_monitor(sut, r):
    ev = r.sr_calls
    if [e.get('type') for e in ev] != ['http.response.start', 'http.response.body']:
        return 'ASGI events %r' % ([e.get('type') for e in ev],)
    st, body = ev
    if not isinstance(st.get('status'), int):
        return 'status %r' % (st.get('status'),)
    hs = st.get('headers')
    if not isinstance(hs, list) or any(not (len(h) == 2 and isinstance(h[0], bytes) and isinstance(h[1], bytes)) for h in hs):
        return 'headers %r' % (hs,)
    if not isinstance(body.get('body'), bytes):
        return 'body %r' % (type(body.get('body')).__name__,)
    return ''


def _asgi_ws_monitor(r):
    seq = [e.get('type') for e in r.sr_calls]
    if any(not str(t).startswith('websocket.') for t in seq):
        return 'non-websocket event on a websocket scope: %r' % (seq,)
    if not seq:
        return ''
    if seq[0] not in ('websocket.accept', 'websocket.close'):
        return 'first event %r' % seq[0]
    if seq[0] == 'websocket.close' and len(seq) > 1:
        return 'events after close: %r' % (seq,)
    if 'websocket.accept' in seq[1:]:
        return 'second accept: %r' % (seq,)
    if 'websocket.close' in seq and seq.index('websocket.close') != len(seq) - 1:
        # the real driver swallows the error of a second close; sends after close are the violation
        tail = seq[seq.index('websocket.close') + 1:]
        if any(t != 'websocket.close' for t in tail):
            return 'events after close: %r' % (seq,)
    return ''


def _close_join(sut):
    """Is some task blocked in Socket.close(wait=True) -> queue.join()?  (state class of known finding F6)"""
    return any(blocked_in_close_join(t) for t in sut.k.blocked())


def _horizon(sut):
    return sut.k.now + sut.srv.ping_interval + sut.srv.ping_timeout + 1


def _request(fl, ci, mi, ei, ti, ski, ui, ji, bi, pending, origin=0):
    method, eio, tr, sk, up, j, cfg = (c12.METHODS[mi], c12.EIOS[ei], c12.TRANSPORTS[ti], c12.SIDKINDS[ski], c12.UPHDRS[ui],
                                       c12.JS[ji], c12.CFGS[ci])
    st = c12._build(fl, cfg, sk)
    if st is None:
        return ''
    sut = st['sut']
    state = dict(flavour=sut.flavour, method=method, sidkind=sk, pending=bool(pending),
                 body='non-client-type' if (method == 'POST' and BODIES[bi] in (b'9', b'2', b'0', b'6')) else 'other',
                 bare_upgrade=bool(up is not None and 'Connection' not in up), transport=tr or 'absent')
    try:
        poll = None
        if pending and sk == 'live-polling':
            sut.get(st['sid'])          # drains what is queued ...
            sut.settle()
            poll = sut.get(st['sid'])   # ... so that this one stays pending
            sut.settle()
        is_ws_req = up is not None and up.get('Upgrade', '').lower() == 'websocket' and 'upgrade' in up.get('Connection', '').lower()
        ws = WsPeer() if (is_ws_req and method == 'GET') else None
        body = BODIES[bi] if method == 'POST' else b''
        q = c12._query(eio, tr, st['sid'], j)
        hdrs = dict(up) if up else {}
        if origin:
            # an accepted cross-origin style request: Origin equals the request's own scheme://host (origin == 1)
            # or a foreign one (origin == 2, refused with 400 before anything else)
            hdrs['Host'] = 'h.example'
            hdrs['Origin'] = 'http://h.example' if origin == 1 else 'http://evil.example'
            hdrs['Access-Control-Request-Headers'] = 'x-custom'
        # (ASGI gateway: the body arrives in 1-3 http.request events; for every other body of the table the server signals the
        # end of the body with a final EMPTY event, as it does for chunked uploads)
        sut.body_chunks = 1 + bi % 3
        sut.body_tail_empty = bi % 2 == 1
        r = sut.request(method, q, hdrs or None, body=body, ws=ws)
        desc = '%s ?%s hdr=%r body=%r' % (method, q, up, body[:24])
        sut.run(until=_horizon(sut))
        if ws is not None:
            # websocket scope / upgrade request: grammar only; if it was accepted the client now goes away and the
            # handler must wind up
            if fl == 1:
                m = _asgi_ws_monitor(r)
                if m:
                    return fail(PROP, 'ASGI-WS-GRAMMAR', '%s: %s' % (desc, m), **state)
            if not r.done:
                ws.close()
                sut.run(until=_horizon(sut))
                if fl == 1:
                    m = _asgi_ws_monitor(r)
                    if m:
                        return fail(PROP, 'ASGI-WS-GRAMMAR', '%s: %s' % (desc, m), **state)
                if not r.done:
                    return fail(PROP, 'WS-HANDLER-STUCK', '%s still running after the peer closed (blocked in %s)' % (
                        desc, r.task.what), **state)
            if ws.accepted or fl == 1 or r.exc is not None:
                # the "no exception escapes / one response" clause is stated for non-upgrade requests only
                return ''
            # WSGI upgrade request that was refused as plain HTTP: fall through to the HTTP monitors
        if not r.done:
            m = fail(PROP, 'REQUEST-COMPLETES', '%s not finished at the horizon (blocked in %s)' % (desc, r.task.what),
                     hung_in_close=_close_join(sut), **state)
            return m
        if r.exc is not None:
            return fail(PROP, 'EXCEPTION-ESCAPES', '%s: %s: %s' % (desc, type(r.exc).__name__, r.exc), **state)
        m = _wsgi_monitor(sut, r) if fl == 0 else _asgi_http_monitor(sut, r)
        if m:
            return fail(PROP, 'GATEWAY-FORM', '%s: %s' % (desc, m), **state)
        if sut.status(r) not in (200, 400, 401, 405):
            return fail(PROP, 'STATUS-SET', '%s answered %r' % (desc, sut.status(r)), **state)
        if poll is not None and not poll.done:
            return fail(PROP, 'POLL-COMPLETES', 'pending poll not finished at the horizon', **state)
        return ''
    finally:
        sut.close()


@cond(quick=dict(timeout=170, parts=dict(FL=[0, 1], M=[0, 1, 2, 3])),
      thorough=dict(timeout=900, parts=dict(FL=[0, 1], M=[0, 1, 2, 3, 4, 5])))
def requests_by_method_session_transport(fl: int, mi: int, ti: int, ski: int, ui: int, pending: bool, origin: int) -> str:
    """
    pre: fl == P.FL and mi == P.M and 0 <= ti < len(c12.TRANSPORTS) and 0 <= ski < len(c12.SIDKINDS) and 0 <= ui <= 3
    pre: ((not pending) or ski == 1) and 0 <= origin <= 2 and (origin == 0 or (ui == 0 and not pending))
    post: _ == ''
    """
    return verdict(untraced(_request, fl, 0, mi, 2, ti, ski, ui, 0, 0, pending, origin))


@cond(quick=dict(timeout=170, parts=dict(FL=[0, 1])), thorough=dict(timeout=600, parts=dict(FL=[0, 1])))
def requests_by_version_jsonp_config(fl: int, ci: int, mi: int, ei: int, ji: int, ski: int) -> str:
    """
    pre: fl == P.FL and 0 <= ci < len(c12.CFGS) and 0 <= mi <= 2 and 0 <= ei < len(c12.EIOS) and 0 <= ji < len(c12.JS)
    pre: 0 <= ski <= 1 and (ci == 0 or ji == 0)
    post: _ == ''
    """
    return verdict(untraced(_request, fl, ci, mi, ei, 1, ski, 0, ji, 0, False))


@cond(quick=dict(timeout=170, parts=dict(FL=[0, 1])), thorough=dict(timeout=600, parts=dict(FL=[0, 1])))
def malformed_bodies(fl: int, bi: int, ski: int, pending: bool, ji: int) -> str:
    """
    pre: fl == P.FL and 0 <= bi < len(BODIES) and 1 <= ski <= 6 and ((not pending) or ski == 1) and 0 <= ji <= 1
    post: _ == ''
    """
    return verdict(untraced(_request, fl, 0, 1, 2, 1, ski, 0, ji, bi, pending))


APIS = ('send', 'disconnect-sid', 'disconnect-all')
STATES = c12.SIDKINDS[1:] + ('no-sessions',)


AE_SPELLINGS = ('GZIP', 'Deflate', 'gzip;q=1.0', 'GZIP, br', 'x-gzip', '*', 'identity;q=0', 'gzip,,deflate', ' , ', 'gzip', 'DEFLATE , GZIP',
                'gzip\t', '')
AE_REQUESTS = ('open', 'poll', 'post', 'bad-sid', 'put', 'options')


def _accept_encoding(fl, ai, ki):
    """Legal but unusual spellings of the Accept-Encoding header on a server that compresses every response it may
    (threshold 0): every request still completes with one well-formed response."""
    from vf.props.common import mk
    sut = mk(fl, async_handlers=False, http_compression=True, compression_threshold=0)
    try:
        hdr = {'Accept-Encoding': AE_SPELLINGS[ai]}
        kind = AE_REQUESTS[ki]
        sut.open('polling')
        sut.settle()
        sid = sut.sids()[0]
        sut.app_send(sid, 'x' * 40)
        sut.settle()
        if kind == 'open':
            r = sut.open('polling', headers=hdr)
        elif kind == 'poll':
            r = sut.get(sid, hdr)
        elif kind == 'post':
            r = sut.post(sid, '4hello', headers=hdr)
        elif kind == 'bad-sid':
            r = sut.request('GET', 'transport=polling&sid=' + 'n' * 60, hdr)
        elif kind == 'put':
            r = sut.request('PUT', 'transport=polling&sid=' + sid, hdr)
        else:
            r = sut.request('OPTIONS', 'transport=polling&sid=' + sid, hdr)
        sut.settle()
        state = dict(flavour=sut.flavour, request=kind, accept_encoding=AE_SPELLINGS[ai])
        desc = '%s with Accept-Encoding %r' % (kind, AE_SPELLINGS[ai])
        if not r.done:
            return fail(PROP, 'REQUEST-COMPLETES', '%s not finished (blocked in %s)' % (desc, r.task.what), **state)
        if r.exc is not None:
            return fail(PROP, 'EXCEPTION-ESCAPES', '%s: %s: %s' % (desc, type(r.exc).__name__, r.exc), **state)
        m = _wsgi_monitor(sut, r) if fl == 0 else _asgi_http_monitor(sut, r)
        if m:
            return fail(PROP, 'GATEWAY-FORM', '%s: %s' % (desc, m), **state)
        if sut.status(r) not in (200, 400, 401, 405):
            return fail(PROP, 'STATUS-SET', '%s answered %r' % (desc, sut.status(r)), **state)
        return ''
    finally:
        sut.close()


@cond(quick=dict(timeout=120), thorough=dict(timeout=300))
def accept_encoding_spellings(fl: int, ai: int, ki: int) -> str:
    """
    pre: 0 <= fl <= 1 and 0 <= ai < len(AE_SPELLINGS) and 0 <= ki < len(AE_REQUESTS)
    post: _ == ''
    """
    return verdict(untraced(_accept_encoding, fl, ai, ki))


def _api(fl, ai, si, pending, client_gone):
    api, sk = APIS[ai], STATES[si]
    if sk == 'no-sessions':
        sut = mk(fl, async_handlers=False)
        st = {'sut': sut, 'sid': 'nosuchsessionid', 'peer': None, 'by': None}
    else:
        st = c12._build(fl, None, sk, bystander=False)
        sut = st['sut']
    state = dict(flavour=sut.flavour, api=api, session=sk, pending=bool(pending), client_gone=bool(client_gone))
    try:
        if pending and sk == 'live-polling':
            sut.get(st['sid'])
            sut.settle()
            sut.get(st['sid'])
            sut.settle()
        if client_gone and st.get('peer') is not None:
            st['peer'].close()
            sut.settle()
        if api == 'send':
            r = sut.app_send(st['sid'], 'x')
        elif api == 'disconnect-sid':
            r = sut.app_disconnect(st['sid'])
        else:
            r = sut.app_disconnect()
        sut.run(until=_horizon(sut))
        if not r.done:
            return fail(PROP, 'API-COMPLETES', '%s(%s session) not finished at the horizon (blocked in %s; %r)' % (
                api, sk, r.task.what, r.task.frames()[-3:]), hung_in_close=_close_join(sut), **state)
        if r.exc is not None:
            return fail(PROP, 'API-RAISES', '%s(%s session): %s: %s' % (api, sk, type(r.exc).__name__, r.exc), **state)
        return ''
    finally:
        sut.close()


@cond(quick=dict(timeout=170, parts=dict(FL=[0, 1])), thorough=dict(timeout=600, parts=dict(FL=[0, 1])))
def api_calls(fl: int, ai: int, si: int, pending: bool, client_gone: bool) -> str:
    """
    pre: fl == P.FL and 0 <= ai < len(APIS) and 0 <= si < len(STATES)
    pre: ((not pending) or si == 0) and ((not client_gone) or 1 <= si <= 2)
    post: _ == ''
    """
    return verdict(untraced(_api, fl, ai, si, pending, client_gone))


from vf.validate.stubs import ALL as VALIDATE  # noqa: E402  (stub-vs-real conformance, run before the obligations)
