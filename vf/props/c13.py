"""C13 Origin policy is enforced before anything else and CORS headers never over-grant."""
from vf.rt import P, cond, verdict, fail, untraced
from vf.props.common import mk, packets_of, WsPeer, SIM_STUBS, SIM_OUTSIDE
from engineio import packet
from engineio import json as eio_json

PROP = 'C13'
EXPLANATION = ('Whole-server level with a SYMBOLIC Origin header: origin = (an allowed origin, one of its truncations, or a '
               'foreign prefix from a table) + a symbolic Unicode tail, so equal / prefix / suffix / near-miss origins are all in '
               'range; cors_allowed_origins forms, credentials flag, X-Forwarded-* combinations and the request kind are symbolic '
               'selectors. The oracle is an independent allowed(origin, config, request) predicate.')
STUBS = SIM_STUBS + ['Packet.json.dumps seam on the asyncio server: the refusal message embeds the Origin text and json.dumps of a '
                     'symbolic string is not tractable; the stub returns a constant for str arguments']
OUTSIDE = SIM_OUTSIDE + ['origin tails longer than the stated bound', 'Host / X-Forwarded-* values outside the table',
                         'allowed-origin lists other than the table entries']
NOT_CONSTRAINED = ['an empty Origin header value', 'ASGI with X-Forwarded-Proto: whether the un-forwarded http://host origin is still accepted (the ASGI driver derives the scheme from that header)', 'whether Access-Control-Allow-Origin must be present for an allowed origin on every response kind']
ASSUMPTIONS = ['cooperative scheduling only']

HOST = 'h.example'
A1 = 'https://a.example'
A2 = 'http://b.example:8080'
CFGS = (None, '*', A1, [A1, A2], 'CALLABLE', [], [A1], (A1, A2))
FWD = (None, {'X-Forwarded-Proto': 'https'}, {'X-Forwarded-Host': 'pub.example'},
       {'X-Forwarded-Proto': 'https, http', 'X-Forwarded-Host': 'pub.example , inner'})
# origin prefixes: allowed ones, their truncations, the request's own / forwarded origins, foreign
PREFIX = ('', A1, A1[:-1], A1[:8], 'a.example', A1.upper(), A2, A2[:-5], 'http://' + HOST, 'https://' + HOST, 'https://pub.example',
          'http://pub.example', 'http://evil.example', 'null', ' ' + A1)
KINDS = ('open', 'poll', 'post', 'upgrade', 'ws-open', 'options')


def _pred(origin):
    return origin is not None and origin.endswith('.example') and origin.startswith('https://')


def allowed(origin, cfg, fwd):
    """Independent statement of the policy."""
    if cfg == '*':
        return True
    if cfg is None:
        own = ['http://' + HOST]
        if fwd:
            proto = fwd.get('X-Forwarded-Proto', 'http').split(',')[0].strip()
            host = fwd.get('X-Forwarded-Host', HOST).split(',')[0].strip()
            own.append(proto + '://' + host)
        return origin in own
    if cfg == 'CALLABLE':
        return bool(_pred(origin))
    if isinstance(cfg, str):
        return origin == cfg
    return any(origin == o for o in cfg)


class _DumpsSeam:
    @staticmethod
    def dumps(obj, *a, **kw):
        if isinstance(obj, str):
            return '"refused"'
        return eio_json.dumps(obj, *a, **kw)
    loads = staticmethod(eio_json.loads)


def _origin_policy(fl, ci, cred, ki, pi, tail, fi, with_origin, prior=False):
    cfg, fwd, kind = CFGS[ci], FWD[fi], KINDS[ki]
    origin = PREFIX[pi] + tail
    if with_origin and origin == '':
        return ''
    # the server gets its own copy of a list configuration (an implementation that mutates it must not change the oracle's)
    real_cfg = _pred if cfg == 'CALLABLE' else (list(cfg) if isinstance(cfg, list) else cfg)
    old_json = packet.Packet.json
    packet.Packet.json = _DumpsSeam
    sut = mk(fl, async_handlers=False, cors_allowed_origins=real_cfg, cors_credentials=bool(cred))
    try:
        sid = None
        if kind in ('poll', 'post', 'upgrade'):
            sut.open('polling', headers={'Host': HOST})
            sut.settle()
            sid = sut.sids()[0]
            sut.app_send(sid, 'queued')
            sut.settle()
        if prior:
            # an earlier, ALLOWED cross-origin request answered by the same server object (nothing it leaves behind may
            # change the verdict on the request under test)
            good = {None: 'http://' + HOST, 'CALLABLE': 'https://x.example'}.get(cfg if not isinstance(cfg, (list, tuple)) else 0, A1)
            pr = sut.request('OPTIONS', 'transport=polling&EIO=4', {'Host': HOST, 'Origin': good})
            sut.settle()
            if cfg != [] and (not pr.done or sut.status(pr) != 200):
                return fail(PROP, 'ORIGIN-WRONGLY-REFUSED', 'allowed Origin %r (config %r, OPTIONS) answered %r' % (
                    good, cfg, sut.status(pr) if pr.done else None), flavour=sut.flavour)
        hdr = {'Host': HOST}
        if fwd:
            hdr.update(fwd)
        if with_origin:
            hdr['Origin'] = origin
        n0 = len(sut.events)
        s0 = len(sut.sids())
        if kind == 'open':
            r = sut.open('polling', headers=hdr)
        elif kind == 'poll':
            r = sut.get(sid, headers=hdr)
        elif kind == 'post':
            r = sut.post(sid, '4data', headers=hdr)
        elif kind == 'upgrade':
            r = sut.ws_upgrade(sid, headers=hdr)
        elif kind == 'ws-open':
            r = sut.open('websocket', headers=hdr)
        else:
            r = sut.request('OPTIONS', 'transport=polling&EIO=4', hdr)
        sut.settle()
        st = dict(flavour=sut.flavour, kind=kind, config=repr(cfg) if not isinstance(cfg, list) else 'list%d' % len(cfg))
        ws_scope = r.peer is not None and fl == 1
        ok = (not with_origin) or cfg == [] or allowed(origin, cfg, fwd)
        desc = 'Origin %r (config %r, forwarded %r, %s)' % (origin if with_origin else None, cfg, fwd, kind)
        if not ok:
            # must be refused with 400 before anything else
            if ws_scope:
                refused = r.done and not r.peer.accepted and r.peer.closed_by_server
            else:
                refused = r.done and r.exc is None and sut.status(r) == 400
            if not refused:
                return fail(PROP, 'ORIGIN-NOT-REFUSED', '%s was not answered 400 (status %r)' % (
                    desc, None if ws_scope else (sut.status(r) if r.done else 'pending')), **st)
            if len(sut.events) != n0 or len(sut.sids()) != s0:
                return fail(PROP, 'ORIGIN-REFUSED-HAS-EFFECT', '%s: events %r' % (desc, sut.events[n0:]), **st)
            if r.peer is not None and r.peer.frames:
                return fail(PROP, 'ORIGIN-REFUSED-HAS-EFFECT', '%s: frames %r sent' % (desc, r.peer.frames), **st)
            if sid is not None:
                g = sut.get(sid, headers={'Host': HOST})
                sut.settle()
                if not g.done or sut.status(g) != 200 or (4, 'queued') not in packets_of(sut, g):
                    return fail(PROP, 'ORIGIN-REFUSED-HAS-EFFECT', '%s consumed / disturbed the session queue' % desc, **st)
        elif fl == 1 and fwd and 'X-Forwarded-Proto' in fwd and with_origin and origin == 'http://' + HOST:
            pass        # ASGI: the gateway only knows the scheme through X-Forwarded-Proto; the un-forwarded own origin is not constrained
        else:
            if not ws_scope and r.done and r.exc is None and sut.status(r) == 400 and kind != 'upgrade':
                return fail(PROP, 'ORIGIN-WRONGLY-REFUSED', '%s answered 400' % desc, **st)
            if ws_scope and kind == 'ws-open' and not r.peer.accepted:
                return fail(PROP, 'ORIGIN-WRONGLY-REFUSED', '%s: websocket open rejected' % desc, **st)
        # CORS headers never over-grant
        if not ws_scope and r.done and r.exc is None and r.peer is None:
            hs = sut.headers(r)
            acao = [v for k, v in hs if k.lower() == 'access-control-allow-origin']
            acac = [v for k, v in hs if k.lower() == 'access-control-allow-credentials']
            cors_any = [k for k, v in hs if k.lower().startswith('access-control-')]
            if cfg == [] and cors_any:
                return fail(PROP, 'CORS-DISABLED-HEADERS', '%s: CORS headers %r with an empty allow-list' % (desc, cors_any), **st)
            for v in acao:
                if not with_origin or v != origin:
                    return fail(PROP, 'ACAO-VALUE', '%s: Access-Control-Allow-Origin %r' % (desc, v), **st)
                if not allowed(origin, cfg, fwd):
                    return fail(PROP, 'ACAO-OVERGRANT', '%s: Access-Control-Allow-Origin granted to a disallowed origin' % desc, **st)
            if acac and not cred:
                return fail(PROP, 'CREDENTIALS-OVERGRANT', '%s: Allow-Credentials with cors_credentials=False' % desc, **st)
        return ''
    finally:
        sut.close()
        packet.Packet.json = old_json


@cond(quick=dict(S=1, SA=1, K=0, timeout=170, parts=dict(FL=[0, 1], C=list(range(len(CFGS))))),
      thorough=dict(S=3, SA=2, K=1, timeout=1500, parts=dict(FL=[0, 1], C=list(range(len(CFGS))), KI=[0, 1])))
def origin_symbolic_tail(fl: int, ci: int, cred: bool, ki: int, pi: int, tail: str) -> str:
    """
    pre: fl == P.FL and ci == P.C and 0 <= ki <= P.K and 0 <= pi < len(PREFIX) and len(tail) <= (P.S if P.FL == 0 else P.SA) and (P.K > 0 or not cred)
    pre: not hasattr(P, 'KI') or ki == P.KI
    post: _ == ''
    """
    return verdict(_origin_policy(fl, ci, cred, ki, pi, tail, 0, True))


@cond(quick=dict(timeout=170, parts=dict(FL=[0, 1])), thorough=dict(timeout=900, parts=dict(FL=[0, 1])))
def origin_kinds_and_forwarding(fl: int, ci: int, cred: bool, ki: int, pi: int, fi: int, with_origin: bool, prior: bool) -> str:
    """
    pre: fl == P.FL and 0 <= ci < len(CFGS) and 0 <= ki < len(KINDS) and 0 <= pi < len(PREFIX) and 0 <= fi < len(FWD)
    pre: (fi == 0 or ci == 0) and (with_origin or pi == 0) and (ki >= 3 or fi > 0 or not with_origin)
    post: _ == ''
    """
    # every request kind (incl. upgrade / websocket open / OPTIONS), X-Forwarded-* combinations, requests without Origin
    return verdict(untraced(_kinds, fl, ci, cred, ki, pi, fi, with_origin, prior))


def _kinds(fl, ci, cred, ki, pi, fi, with_origin, prior=False):
    return _origin_policy(fl, ci, cred, ki, pi, '', fi, with_origin, prior)


from vf.validate.stubs import ALL as VALIDATE  # noqa: E402  (stub-vs-real conformance, run before the obligations)
