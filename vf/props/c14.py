"""C14 Inbound size and volume limits are exact and nothing oversize reaches the app."""
from vf.rt import P, cond, verdict, fail
from vf.props.common import mk, packets_of, WsPeer, SIM_STUBS, SIM_OUTSIDE, blocked_in_close_join

PROP = 'C14'
EXPLANATION = ('Whole-server level with symbolic integers: the configured max_http_buffer_size M (1..MAXM) and '
               'the declared Content-Length L (ANY L >= 0 on WSGI) are symbolic ints, so each comparison in the code splits the '
               'integers exactly at the boundary (L == M, L == M+1, frame length == M ...); the body reader records every '
               'read(n). WebSocket frames come from a table of lengths and are compared against the symbolic M.')
STUBS = SIM_STUBS + ['wsgi.input reader that records the size of every read()',
                     'Content-Length is handed over as an int-typed value (digit parsing of the header is outside the claim)']
OUTSIDE = SIM_OUTSIDE + ['frame texts other than the table entries (their LENGTH relative to M is what matters: M is symbolic)',
                         'bodies whose actual length exceeds 24 bytes', 'packet counts above 40']
NOT_CONSTRAINED = ['ASGI: the ASGI server has already buffered the body before the application sees it, so "never reads more '
                   'than min(declared, limit)" is checked on the WSGI gateway only',
                   'an oversize frame DURING the upgrade handshake may end the session (C14) or leave it on polling (C06): '
                   'either is accepted, a session that is neither is reported']
ASSUMPTIONS = ['cooperative scheduling only']

BODY = b'4hello-world\x1e4second'          # 21 bytes, two packets


class _IntHeader:
    """ASGI header value whose decode() yields the symbolic int itself (keeps str(int) out of the solver)."""
    def __init__(self, v):
        self.v = v

    def decode(self, *a):
        return self.v


def _post(fl, M, L, pending):
    sut = mk(fl, async_handlers=False, max_http_buffer_size=M)
    try:
        sut.open('polling')
        sut.settle()
        sid = sut.sids()[0]
        poll = None
        if pending:
            poll = sut.get(sid)         # nothing is queued after the open response: this poll stays pending
            sut.settle()
        n0 = len(sut.events)
        if fl == 0:
            del sut.reads[:]
            r = sut.request('POST', 'transport=polling&sid=' + sid, None, BODY, env_extra={'CONTENT_LENGTH': L})
        else:
            # (the ASGI server hands the body over in 1-3 http.request events)
            sut.body_chunks = 1 + (len(sut.sids()[0]) + (1 if pending else 0)) % 3
            r = sut.request('POST', 'transport=polling&sid=' + sid, None, BODY)
            r.scope['headers'] = [(b'content-length', _IntHeader(L))]
        sut.settle()
        msgs = [a for k, s, a in sut.events[n0:] if k == 'message']
        disc = [a for k, s, a in sut.events[n0:] if k == 'disconnect']
        st = dict(flavour=sut.flavour, pending=bool(pending))
        if L > M:
            if msgs:
                return fail(PROP, 'OVERSIZE-REACHES-APP', 'declared %d > limit %d but handler got %r' % (L, M, msgs), **st)
            if fl == 0 and sut.reads:
                return fail(PROP, 'OVERSIZE-READ', 'declared %d > limit %d but the body was read: %r' % (L, M, sut.reads), **st)
            if len(disc) != 1:
                return fail(PROP, 'OVERSIZE-ENDS-SESSION', 'declared %d > limit %d: %d disconnect events' % (L, M, len(disc)), **st)
            if not r.done:
                m = fail(PROP, 'OVERSIZE-POST-COMPLETES', 'oversize POST never completed (blocked in %s)' % r.task.what,
                         hung_in_close=blocked_in_close_join(r.task), **st)
                if m:
                    return m
            elif r.exc is not None or sut.status(r) != 400:
                return fail(PROP, 'OVERSIZE-POST-STATUS', 'declared %d > limit %d answered %r (%r)' % (L, M, sut.status(r), r.exc), **st)
            n1 = len(sut.events)
            r2 = sut.post(sid, '4late')
            sut.settle()
            if len(sut.events) != n1:
                return fail(PROP, 'OVERSIZE-ENDS-SESSION', 'session still dispatches after an oversize POST', **st)
            return ''
        # L <= M: accepted; at most L bytes are read, and what is read is what the handler sees
        if fl == 0:
            total = 0
            for n in sut.reads:
                if n is None or n < 0:
                    return fail(PROP, 'UNBOUNDED-READ', 'read(%r) with declared %d limit %d' % (n, L, M), **st)
                total += n
            if total > L:
                return fail(PROP, 'READ-BEYOND-DECLARED', 'read %r bytes with declared %d (limit %d)' % (sut.reads, L, M), **st)
        seen = (BODY if L >= len(BODY) else BODY[:L]).decode('utf-8')
        want = [p[1:] for p in seen.split('\x1e') if p[:1] == '4'] if seen else []
        bad = any(p[:1] != '4' for p in seen.split('\x1e')) if seen else False
        if not bad:
            if msgs != want:
                return fail(PROP, 'ACCEPTED-BODY-EVENTS', 'declared %d <= limit %d: events %r, expected %r' % (L, M, msgs, want), **st)
            if not r.done or r.exc is not None or sut.status(r) != 200:
                return fail(PROP, 'LIMIT-BODY-REFUSED', 'declared %d <= limit %d answered %r' % (L, M, sut.status(r) if r.done else 'nothing'), **st)
            if disc:
                return fail(PROP, 'LIMIT-BODY-ENDS-SESSION', 'declared %d <= limit %d ended the session' % (L, M), **st)
        return ''
    finally:
        sut.close()


@cond(quick=dict(MAXM=24, timeout=170, parts=dict(FL=[0, 1], PEND=[0, 1])), thorough=dict(MAXM=40, timeout=900, parts=dict(FL=[0, 1], PEND=[0, 1])))
def post_declared_vs_limit(fl: int, M: int, L: int, pending: bool) -> str:
    """
    pre: fl == P.FL and 1 <= M <= P.MAXM and L >= 0 and (fl == 0 or L <= 24)
    post: _ == ''
    """
    # threaded/WSGI: the declared length L ranges over ALL non-negative integers; asyncio/ASGI: L over 0..24 (the real
    # ASGI driver slices its buffer by L, which makes CrossHair enumerate L). The limit M ranges over 1..MAXM: the OPEN
    # packet renders M in decimal and str(int) of an unbounded symbolic int cannot be exhausted. The body has 21 bytes.
    if pending != bool(P.PEND):
        return ''
    return verdict(_post(fl, M, L, pending))


NONASCII = ('4' + '\xe9' * 10).encode('utf-8')       # 11 characters, 21 bytes


def _post_nonascii(fl, M, pending):
    """The limit counts BYTES of the body: a body of 21 bytes / 11 characters against every limit M."""
    sut = mk(fl, async_handlers=False, max_http_buffer_size=M)
    try:
        sut.open('polling')
        sut.settle()
        sid = sut.sids()[0]
        if pending:
            sut.get(sid)
            sut.settle()
        n0 = len(sut.events)
        del sut.reads[:]
        r = sut.post(sid, NONASCII)
        sut.settle()
        msgs = [a for k, s_, a in sut.events[n0:] if k == 'message']
        disc = [a for k, s_, a in sut.events[n0:] if k == 'disconnect']
        st = dict(flavour=sut.flavour, pending=bool(pending), body='non-ascii')
        L = len(NONASCII)
        if L > M:
            if msgs:
                return fail(PROP, 'OVERSIZE-REACHES-APP', 'body of %d bytes (11 characters) > limit %d reached the handler: %r' % (L, M, msgs), **st)
            if fl == 0 and sut.reads:
                return fail(PROP, 'OVERSIZE-READ', 'body of %d bytes > limit %d was read: %r' % (L, M, sut.reads), **st)
            if len(disc) != 1:
                return fail(PROP, 'OVERSIZE-ENDS-SESSION', '%d disconnect events' % len(disc), **st)
        else:
            if msgs != ['\xe9' * 10] or disc:
                return fail(PROP, 'LIMIT-BODY-REFUSED', 'body of %d bytes <= limit %d: events %r %r' % (L, M, msgs, disc), **st)
        return ''
    finally:
        sut.close()


@cond(quick=dict(MAXM=30, timeout=120, parts=dict(FL=[0, 1])), thorough=dict(MAXM=40, timeout=300, parts=dict(FL=[0, 1])))
def post_nonascii_vs_limit(fl: int, M: int, pending: bool) -> str:
    """
    pre: fl == P.FL and 1 <= M <= P.MAXM
    post: _ == ''
    """
    return verdict(_post_nonascii(fl, M, pending))


FRAMES = ('4', '4a', '4' + 'x' * 9, '4' + 'y' * 16, '4' + 'z' * 63)
BFRAMES = (b'\x01', b'ab', b'\x00' * 10, b'\xff' * 17)


def _frame(fl, M, mode, fi, binary, pos):
    """mode 0: WebSocket-first session; 1: upgraded session; 2: during the upgrade handshake (pos 0 = instead of the
    probe, pos 1 = instead of UPGRADE)."""
    sut = mk(fl, async_handlers=False, max_http_buffer_size=M)
    try:
        frame = BFRAMES[fi % len(BFRAMES)] if binary else FRAMES[fi % len(FRAMES)]
        F = len(frame)
        st = dict(flavour=sut.flavour, mode=('direct', 'upgraded', 'handshake')[mode], binary=bool(binary))
        if mode == 0:
            u = sut.open('websocket')
            sut.settle()
            peer = u.peer
        else:
            sut.open('polling')
            sut.settle()
            u = sut.ws_upgrade(sut.sids()[0])
            sut.settle()
            peer = u.peer
            if mode == 1:
                if 6 > M:
                    return ''           # the handshake frames themselves would not fit
                peer.send('2probe')
                sut.settle()
                peer.send('5')
                sut.settle()
        sid = sut.sids()[0]
        n0 = len(sut.events)
        if mode == 2:
            if F <= M and not (6 > M):
                return ''               # in-limit frames during the handshake are C06's subject
            if pos == 1:
                if 6 > M:
                    return ''
                peer.send('2probe')
                sut.settle()
            peer.send(('5' + frame) if (pos == 1 and not binary) else frame)
            F = F + (1 if (pos == 1 and not binary) else 0)
            if F <= M:
                return ''
        else:
            peer.send(frame)
        sut.settle()
        msgs = [a for k, s, a in sut.events[n0:] if k == 'message']
        disc = [a for k, s, a in sut.events[n0:] if k == 'disconnect']
        want = frame if binary else frame[1:]
        if F > M:
            if msgs:
                return fail(PROP, 'OVERSIZE-FRAME-REACHES-APP', 'frame of %d > limit %d delivered %r' % (F, M, msgs), **st)
            if mode != 2:
                if len(disc) != 1:
                    return fail(PROP, 'OVERSIZE-FRAME-ENDS-SESSION', 'frame of %d > limit %d: %d disconnect events' % (F, M, len(disc)), **st)
            else:
                # handshake: ended, or still a fully working polling session
                if not disc:
                    peer.close()
                    sut.settle()
                    sut.app_send(sid, 'after')
                    sut.settle()
                    g = sut.get(sid)
                    sut.settle()
                    got = packets_of(sut, g) if g.done and sut.status(g) == 200 else None
                    if got is None or (4, 'after') not in got:
                        return fail(PROP, 'OVERSIZE-HANDSHAKE-LIMBO', 'oversize frame (%d > %d) at handshake step %d: session neither '
                                    'ended nor usable on polling (poll -> %r %r)' % (F, M, pos, sut.status(g) if g.done else 'pending', got), **st)
            return ''
        if msgs != [want]:
            return fail(PROP, 'LIMIT-FRAME-REFUSED', 'frame of %d <= limit %d: events %r' % (F, M, msgs), **st)
        if disc:
            return fail(PROP, 'LIMIT-FRAME-ENDS-SESSION', 'frame of %d <= limit %d ended the session' % (F, M), **st)
        return ''
    finally:
        sut.close()


@cond(quick=dict(MAXM=20, timeout=170, parts=dict(FL=[0, 1], MODE=[0, 1, 2])), thorough=dict(MAXM=70, timeout=900, parts=dict(FL=[0, 1], MODE=[0, 1, 2])))
def frame_vs_limit(fl: int, M: int, mode: int, fi: int, binary: bool, pos: int) -> str:
    """
    pre: fl == P.FL and 1 <= M <= P.MAXM and mode == P.MODE and 0 <= fi <= 4 and 0 <= pos <= 1 and (mode == 2 or pos == 0)
    post: _ == ''
    """
    return verdict(_frame(fl, M, mode, fi, binary, pos))


def _count(fl, n, form):
    sut = mk(fl, async_handlers=False)
    try:
        sut.open('polling')
        sut.settle()
        sid = sut.sids()[0]
        n0 = len(sut.events)
        body = '\x1e'.join(['4m%d' % i for i in range(n)])
        if form:
            import urllib.parse
            r = sut.post(sid, 'd=' + urllib.parse.quote(body), extra='&j=1')
        else:
            r = sut.post(sid, body)
        sut.settle()
        msgs = [a for k, s, a in sut.events[n0:] if k == 'message']
        if len(msgs) > 16:
            return fail(PROP, 'PACKET-LIMIT', '%d packets of one body were processed (limit 16)' % len(msgs), flavour=sut.flavour, form=form)
        if n <= 16 and msgs != ['m%d' % i for i in range(n)]:
            return fail(PROP, 'PACKET-LIMIT-ACCEPT', 'body of %d packets: events %r' % (n, msgs), flavour=sut.flavour, form=form)
        if n > 16 and msgs:
            return fail(PROP, 'PACKET-LIMIT', 'body of %d packets: %d processed' % (n, len(msgs)), flavour=sut.flavour, form=form)
        return ''
    finally:
        sut.close()


@cond(quick=dict(N=22, timeout=170, parts=dict(FL=[0, 1])), thorough=dict(N=40, timeout=600, parts=dict(FL=[0, 1])))
def packets_per_body(fl: int, n: int, form: bool) -> str:
    """
    pre: fl == P.FL and 0 <= n <= P.N
    post: _ == ''
    """
    return verdict(_count(fl, n, form))


from vf.validate.stubs import ALL as VALIDATE  # noqa: E402  (stub-vs-real conformance, run before the obligations)
