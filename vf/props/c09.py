"""C09 Client protocol conduct: PONG echo, ordered exactly-once I/O, probe upgrade."""
from vf.rt import P, cond, verdict, fail, untraced
from vf.simenv.kernel import Kernel
from vf.simenv.clients import ThreadedClientSut, AsyncClientSut
from vf.simenv.fakeserver import FakeServer
from vf.props.common import SIM_STUBS, SIM_OUTSIDE
from vf.oracles.refs import ref_b64
from engineio import packet, base_client
from engineio import json as eio_json

PROP = 'C09'
EXPLANATION = ('The REAL Client and AsyncClient against a scripted server: PING data is a SYMBOLIC text (compared, not sampled) '
               'in one condition and a table of JSON look-alikes through the real parser in another; server scripts (message bursts of '
               'every payload kind, NOOP, unknown types, PINGs), application send sequences, the way the probe is answered, packets and '
               'sends that exist before the upgrade attempt, and the moment the server goes silent are solver-enumerated selectors; '
               '_get_engineio_url runs on symbolic URL parts against a reference formatter.')
STUBS = SIM_STUBS + ['client side transport stubs and scripted server as in C08', 'Packet.json seam ("never JSON") in the symbolic PING condition']
OUTSIDE = SIM_OUTSIDE + ['PING texts longer than the stated bound', 'scripts longer than 4 entries', 'URL parts outside the tables / bounds',
                         'user-info, IPv6 literals and fragments in URLs']
NOT_CONSTRAINED = ['PING data that is a JSON literal with insignificant whitespace, a JSON string literal or null (the client decodes the '
                   'payload as JSON and the PONG carries the decoded value)']
ASSUMPTIONS = ['cooperative scheduling only; virtual integer time']
OUTSIDE = OUTSIDE + ['send bursts above the stated bound (quick 40, thorough 63 back-to-back send() calls)']


class _NeverJson:
    @staticmethod
    def loads(s, **kw):
        if s[:12] == '{"sid":"sid-':
            return eio_json.loads(s, **kw)          # the OPEN packet of the scripted server (longer than any symbolic text here)
        raise ValueError('not json')
    dumps = staticmethod(eio_json.dumps)


def _mk(cfl, k, fs, **kw):
    return (ThreadedClientSut if cfl == 0 else AsyncClientSut)(k, fs, **kw)


def _connect(cl, k, fs, ws, upgrade=False):
    if ws:
        tr = ['websocket']
    elif upgrade:
        tr = None
    else:
        tr = ['polling']
        fs.upgrades = []
    h = cl.call('connect', 'http://srv.example', transports=tr)
    k.settle()
    return h


def _pong_echo(cfl, ws, data):
    k = Kernel()
    fs = FakeServer(k)
    fs.heartbeat = False
    cl = _mk(cfl, k, fs)
    old = packet.Packet.json
    packet.Packet.json = _NeverJson
    try:
        h = _connect(cl, k, fs, ws)
        if h.exc is not None or cl.state() != 'connected':
            return fail(PROP, 'SETUP', 'connect failed: %r' % (h.exc,))
        fs.push('2' + data)
        k.run(until=k.now + 1)
        pongs = [d for tr, t, d in fs.received if t == 3]
        if pongs != [data]:
            return fail(PROP, 'PONG-ECHO', 'PING %r answered with PONG data %r' % (data, pongs), client=cl.flavour,
                        transport='websocket' if ws else 'polling')
        return ''
    finally:
        packet.Packet.json = old
        cl.close()
        k.teardown()


@cond(quick=dict(S=3, SP=1, timeout=170, parts=dict(C=[0, 1], WS=[0, 1])), thorough=dict(S=6, SP=2, timeout=1500, parts=dict(C=[0, 1], WS=[0, 1])))
def pong_echo_symbolic(cfl: int, ws: int, data: str) -> str:
    """
    pre: cfl == P.C and ws == P.WS and len(data) <= (P.S if P.WS else P.SP)
    post: _ == ''
    """
    if '\x1e' in data:
        return ''           # the separator cannot occur inside a packet of a polling payload
    return verdict(_pong_echo(cfl, bool(ws), data))


PINGS = ('', 'probe', '12', '-1', 'true', '{"a":1}', '[1,2]', '1.5', 'x y', '\xe9\u20ac', 'b64?', '4', '{', '\\')


def _pong_table(cfl, ws, i):
    k = Kernel()
    fs = FakeServer(k)
    fs.heartbeat = False
    cl = _mk(cfl, k, fs)
    try:
        _connect(cl, k, fs, ws)
        fs.push('2' + PINGS[i])
        k.run(until=k.now + 1)
        raw = [f for f in fs.ws_frames if isinstance(f, str) and f[:1] == '3'] if ws else \
            [p for body in fs.raw_posts for p in body.split('\x1e') if p[:1] == '3']
        if raw != ['3' + PINGS[i]]:
            return fail(PROP, 'PONG-ECHO', 'PING %r answered on the wire with %r' % (PINGS[i], raw), client=cl.flavour,
                        transport='websocket' if ws else 'polling')
        return ''
    finally:
        cl.close()
        k.teardown()


@cond(quick=dict(timeout=120), thorough=dict(timeout=300))
def pong_echo_lookalikes(cfl: int, ws: bool, i: int) -> str:
    """
    pre: 0 <= cfl <= 1 and 0 <= i < len(PINGS)
    post: _ == ''
    """
    return verdict(untraced(_pong_table, cfl, ws, i))


SERVER_SCRIPT = ('4text', '4{"k":[1,2]}', 'bAAEC/w==', '6', '7x', '2hb', '412', '4', '9')
SERVER_EXPECT = {'4text': 'text', '4{"k":[1,2]}': {'k': [1, 2]}, 'bAAEC/w==': b'\x00\x01\x02\xff', '412': '12', '4': ''}
SENDS = ('hello', {'j': [1]}, b'\x00\xfe', '', [1, 'two'], b'', bytearray(b'\x01\x02\xff'))


def _io(cfl, mode, s0, s1, s2, ns, a0, a1, a2, na, burst):
    """mode 0 polling, 1 websocket, 2 upgraded."""
    k = Kernel()
    fs = FakeServer(k)
    fs.heartbeat = False
    cl = _mk(cfl, k, fs)
    st = dict(client=cl.flavour, mode=('polling', 'websocket', 'upgraded')[mode])
    try:
        h = _connect(cl, k, fs, mode == 1, upgrade=(mode == 2))
        if h.exc is not None or cl.state() != 'connected':
            return fail(PROP, 'SETUP', 'connect failed: %r' % (h.exc,), **st)
        if cl.c.transport() != ('polling' if mode == 0 else 'websocket'):
            return fail(PROP, 'SETUP', 'transport %s' % cl.c.transport(), **st)
        script = [SERVER_SCRIPT[x] for x in (s0, s1, s2)[:ns]]
        sends = [SENDS[x] for x in (a0, a1, a2)[:na]]
        wire = []
        for p in script:
            if mode != 0 and p[:1] == 'b':
                wire.append(b'\x00\x01\x02\xff')
            else:
                wire.append(p)
        if burst:
            fs.push(*wire)
            for d in sends:
                cl.call('send', d)
            k.settle()
        else:
            for i in range(max(len(wire), len(sends))):
                if i < len(wire):
                    fs.push(wire[i])
                if i < len(sends):
                    cl.call('send', sends[i])
                k.settle()
        k.run(until=k.now + 1)
        got = [d for kind, d in cl.events if kind == 'message']
        want = [SERVER_EXPECT[p] for p in script if p in SERVER_EXPECT]
        if len(got) != len(want) or any(a != b or type(a) is not type(b) for a, b in zip(got, want)):
            return fail(PROP, 'MESSAGES-TO-HANDLER', 'server script %r -> handler got %r, expected %r' % (script, got, want), **st)
        if [e for e in cl.events if e[0] == 'disconnect']:
            return fail(PROP, 'SPURIOUS-DISCONNECT', 'script %r ended the connection: %r' % (script, cl.events), **st)
        recv = [d for tr, t, d in fs.received if t == 4]
        exp = []
        import json
        for d in sends:
            if isinstance(d, (bytes, bytearray)):
                exp.append(bytes(d))
            elif isinstance(d, str):
                exp.append(d)
            else:
                exp.append(json.dumps(d, separators=(',', ':')))
        if recv != exp:
            return fail(PROP, 'SENDS-ON-THE-WIRE', 'application sent %r, server received %r' % (sends, recv), **st)
        trs = set(tr for tr, t, d in fs.received if t in (3, 4))
        if trs - {('polling' if mode == 0 else 'websocket')}:
            return fail(PROP, 'TRANSPORT-IN-USE', 'packets travelled on %r' % (trs,), **st)
        # binary framing
        for d in sends:
            if isinstance(d, (bytes, bytearray)):
                if mode == 0:
                    if not any(('b' + ref_b64(bytes(d))) in body.split('\x1e') for body in fs.raw_posts):
                        return fail(PROP, 'BINARY-FRAMING', 'binary %r not sent as base64 in a polling body: %r' % (d, fs.raw_posts), **st)
                elif not any(isinstance(f, bytes) and f == bytes(d) for f in fs.ws_frames):
                    return fail(PROP, 'BINARY-FRAMING', 'binary %r not sent as a binary frame: %r' % (d, fs.ws_frames), **st)
        # every PING of the script was answered
        pings = [p[1:] for p in script if p[:1] == '2']
        pongs = [d for tr, t, d in fs.received if t == 3]
        if pongs != pings:
            return fail(PROP, 'PONG-ECHO', 'PINGs %r answered with %r' % (pings, pongs), **st)
        return ''
    finally:
        cl.close()
        k.teardown()


@cond(quick=dict(N=2, timeout=170, parts=dict(C=[0, 1], M=[0, 1, 2], B=[0, 1], NA=[0, 1, 2])), thorough=dict(N=3, timeout=1800, parts=dict(C=[0, 1], M=[0, 1, 2], B=[0, 1], NA=[0, 1, 2, 3])))
def ordered_io(cfl: int, mode: int, s0: int, s1: int, s2: int, ns: int, a0: int, a1: int, a2: int, na: int, burst: bool) -> str:
    """
    pre: cfl == P.C and mode == P.M and burst == bool(P.B) and 0 <= ns <= P.N and na == P.NA
    pre: 0 <= s0 < len(SERVER_SCRIPT) and 0 <= s1 < len(SERVER_SCRIPT) and 0 <= s2 <= 3 and (ns >= 3 or s2 == 0) and (ns >= 2 or s1 == 0) and (ns >= 1 or s0 == 0)
    pre: 0 <= a0 < len(SENDS) and (0 <= a1 <= 2 or a1 == 6) and 0 <= a2 <= 2 and (na >= 3 or a2 == 0) and (na >= 2 or a1 == 0) and (na >= 1 or a0 == 0)
    pre: (ns <= 1 or na <= 1)
    post: _ == ''
    """
    return verdict(untraced(_io, cfl, mode, s0, s1, s2, ns, a0, a1, a2, na, burst))


REPLIES = ('3probe', '3nope', '6', '3', None, '3probe ')


def _upgrade_conduct(cfl, ri, early_send, bundled_ping, ws_refused):
    k = Kernel()
    fs = FakeServer(k)
    fs.probe_reply = REPLIES[ri]
    if ws_refused:
        fs.ws_mode = 'refuse'
    if bundled_ping:
        fs.extras = ['2early', '4welcome']
    cl = _mk(cfl, k, fs)
    st = dict(client=cl.flavour, probe_reply=repr(REPLIES[ri]), ws_refused=bool(ws_refused))
    try:
        if early_send:
            if cfl == 0:
                cl.in_handler['connect'] = lambda: (cl.c.send('first'), cl.c.send(b'\x01\x02'))
            else:
                async def early():
                    await cl.c.send('first')
                    await cl.c.send(b'\x01\x02')
                cl.in_handler['connect'] = lambda: k.spawn_coro(early(), name='AsyncClient early sends')
        h = cl.call('connect', 'http://srv.example')
        k.run(until=k.now + 7)
        if not h.task.done_:
            return fail(PROP, 'CONNECT-HANGS', 'connect() still running 7 s after the probe went unanswered (blocked in %s)' % h.task.what, **st)
        if h.exc is not None or cl.state() != 'connected':
            return fail(PROP, 'SETUP', 'connect: %r state %s events %r' % (h.exc, cl.state(), cl.events), **st)
        cl.call('send', 'after')
        k.run(until=k.now + 1)
        ok = REPLIES[ri] == '3probe' and not ws_refused
        up = fs.upgrade_frames
        if ok:
            if up != ['2probe', '5'] or cl.c.transport() != 'websocket':
                return fail(PROP, 'UPGRADE-HANDSHAKE', 'probe answered correctly: client sent %r, transport %s' % (up, cl.c.transport()), **st)
        else:
            if '5' in up or cl.c.transport() != 'polling':
                return fail(PROP, 'UPGRADE-WITHOUT-PROBE', 'probe answered %r: client sent %r, transport %s' % (REPLIES[ri], up, cl.c.transport()), **st)
            if not ws_refused and up[:1] != ['2probe']:
                return fail(PROP, 'UPGRADE-HANDSHAKE', 'client opened the upgrade socket with %r' % (up,), **st)
        # nothing queued is lost, whatever happened to the upgrade
        want = (['first', b'\x01\x02'] if early_send else []) + ['after']
        recv = [d for tr, t, d in fs.received if t == 4]
        if recv != want:
            return fail(PROP, 'QUEUED-LOST', 'sends %r, server received %r (upgrade frames %r)' % (want, recv, up), **st)
        if bundled_ping:
            pongs = [d for tr, t, d in fs.received if t == 3 and d != '']
            if pongs != ['early']:
                return fail(PROP, 'PONG-ECHO', 'PING bundled with OPEN answered with %r' % (pongs,), **st)
            if [d for kind, d in cl.events if kind == 'message'] != ['welcome']:
                return fail(PROP, 'MESSAGES-TO-HANDLER', 'message bundled with OPEN: %r' % (cl.events,), **st)
        return ''
    finally:
        cl.close()
        k.teardown()


def _burst(cfl, mode, n, with_ping, inflight=False):
    """n send() calls issued back to back (nothing yields in between), mixed text / JSON / binary, optionally with a PING
    from the server arriving in the middle of it: the server receives exactly those payloads once and in order."""
    import json
    k = Kernel()
    fs = FakeServer(k)
    fs.heartbeat = False
    cl = _mk(cfl, k, fs)
    st = dict(client=cl.flavour, mode=('polling', 'websocket', 'upgraded')[mode], burst=n)
    try:
        h = _connect(cl, k, fs, mode == 1, upgrade=(mode == 2))
        if h.exc is not None or cl.state() != 'connected':
            return fail(PROP, 'SETUP', 'connect failed: %r' % (h.exc,), **st)
        sends = [('t%d' % i, {'n': i}, bytes([i, 255]))[i % 3] for i in range(n)]
        if inflight and mode == 0 and n > 0:
            # polling: the first send's POST is still in flight (the server has not answered it) while the rest is queued
            fs.post_mode = 'hold'
            cl.call('send', sends[0])
            k.settle()
            for d in sends[1:]:
                cl.call('send', d)
                k.settle()
            fs.hold = False
            fs.post_mode = 'ok'
            sends_iter = []
        else:
            sends_iter = list(enumerate(sends))
        for i, d in sends_iter:
            cl.call('send', d)
            if with_ping and i == n // 2:
                fs.push('2mid')
        k.settle()
        k.run(until=k.now + 2)
        recv = [d for tr, t, d in fs.received if t == 4]
        exp = [d if isinstance(d, (str, bytes)) else json.dumps(d, separators=(',', ':')) for d in sends]
        if recv != exp:
            missing = [x for x in exp if x not in recv]
            return fail(PROP, 'SENDS-ON-THE-WIRE', 'a burst of %d send() calls: the server received %d payloads (missing %r, first '
                        'received %r)' % (n, len(recv), missing[:4], recv[:4]), **st)
        pongs = [d for tr, t, d in fs.received if t == 3]
        if pongs != (['mid'] if with_ping and n > 0 else []):
            return fail(PROP, 'PONG-ECHO', 'PING "mid" during a burst of %d sends answered with %r' % (n, pongs), **st)
        if [e for e in cl.events if e[0] == 'disconnect']:
            return fail(PROP, 'SPURIOUS-DISCONNECT', 'a burst of %d sends ended the connection: %r' % (n, cl.events), **st)
        return ''
    finally:
        cl.close()
        k.teardown()


@cond(quick=dict(N=40, timeout=170, parts=dict(C=[0, 1])), thorough=dict(N=63, timeout=600, parts=dict(C=[0, 1])))
def send_burst(cfl: int, mode: int, n: int, with_ping: bool, inflight: bool) -> str:
    """
    pre: cfl == P.C and 0 <= mode <= 2 and 0 <= n <= P.N and (not inflight or (mode == 0 and not with_ping))
    post: _ == ''
    """
    return verdict(untraced(_burst, cfl, mode, n, with_ping, inflight))


@cond(quick=dict(timeout=120), thorough=dict(timeout=300))
def upgrade_conduct(cfl: int, ri: int, early_send: bool, bundled_ping: bool, ws_refused: bool) -> str:
    """
    pre: 0 <= cfl <= 1 and 0 <= ri < len(REPLIES) and (not ws_refused or ri == 0)
    post: _ == ''
    """
    return verdict(untraced(_upgrade_conduct, cfl, ri, early_send, bundled_ping, ws_refused))


REQUEST_TIMEOUTS = (None, 60, 1)


def _silence(cfl, ws, after_pings, send_first, rti=0):
    k = Kernel()
    fs = FakeServer(k)
    # (the application may have configured a request_timeout of its own: the bound on silence does not depend on it)
    cl = _mk(cfl, k, fs, **({} if REQUEST_TIMEOUTS[rti] is None else {'request_timeout': REQUEST_TIMEOUTS[rti]}))
    st = dict(client=cl.flavour, transport='websocket' if ws else 'polling', request_timeout=REQUEST_TIMEOUTS[rti])
    try:
        _connect(cl, k, fs, ws)
        t0 = k.now
        k.run(until=k.now + 3 * after_pings + 1)
        if [e for e in cl.events if e[0] == 'disconnect']:
            return fail(PROP, 'LIVE-SERVER-DROPPED', 'the server pinged %d times and was declared lost: %r' % (fs.pings, cl.events), **st)
        if send_first:
            cl.call('send', 'x')
            k.settle()
        fs.heartbeat = False
        fs.poll_mode = 'silence'
        t_silent = k.now
        bound = 3 + 2 + (5 if not ws else 0) + 3       # interval + timeout (+ grace on polling) counted from the last PING
        while k.now < t_silent + bound + 8 and not [e for e in cl.events if e[0] == 'disconnect']:
            k.run(until=k.now + 1)
        disc = [e for e in cl.events if e[0] == 'disconnect']
        if not disc:
            return fail(PROP, 'SILENCE-NOT-DETECTED', 'server silent for %d s, no disconnect' % (k.now - t_silent), **st)
        if disc[0][1] != 'transport error':
            return fail(PROP, 'SILENCE-REASON', 'reason %r' % disc[0][1], **st)
        if k.now - t_silent > bound:
            return fail(PROP, 'SILENCE-BOUND', 'declared lost %d s after the server went silent, bound %d' % (k.now - t_silent, bound), **st)
        return ''
    finally:
        cl.close()
        k.teardown()


@cond(quick=dict(timeout=120), thorough=dict(timeout=300))
def silence_detected(cfl: int, ws: bool, after_pings: int, send_first: bool, rti: int) -> str:
    """
    pre: 0 <= cfl <= 1 and 0 <= after_pings <= 3 and 0 <= rti < len(REQUEST_TIMEOUTS)
    post: _ == ''
    """
    return verdict(untraced(_silence, cfl, ws, after_pings, send_first, rti))


# a real client object built once by the public constructor (outside any symbolic run)
_URL_CLIENT = __import__('engineio').Client(handle_sigint=False)

SCHEMES = ('http', 'https', 'ws', 'wss', 'HTTP')
HOSTS = ('h.example', 'localhost:5000', '10.0.0.1:80', 'h.example:443')
PATHS = ('engine.io', '/engine.io/', 'socket.io', 'a/b', '//x//', '')
QUERIES = ('', 'token=abc', 'a=1&b=2', 'x=%20y', 'transport=bogus')


def _ref_url(scheme, host, path, query, transport):
    s = 'http' if transport == 'polling' else 'ws'
    if scheme.lower() in ('https', 'wss'):
        s += 's'
    return '%s://%s/%s/?%s%stransport=%s&EIO=4' % (s, host, path.strip('/'), query, '&' if query else '', transport)


def _url_case(si, hi, pi, qi, ws, tail):
    q = QUERIES[qi] + tail if QUERIES[qi] else (('z=' + tail) if tail else '')
    url = '%s://%s/ignored/path%s' % (SCHEMES[si], HOSTS[hi], ('?' + q) if q else '')
    transport = 'websocket' if ws else 'polling'
    got = _URL_CLIENT._get_engineio_url(url, PATHS[pi], transport)
    want = _ref_url(SCHEMES[si], HOSTS[hi], PATHS[pi], q, transport)
    if got != want:
        return fail(PROP, 'URL', '_get_engineio_url(%r, %r, %r) = %r, expected %r' % (url, PATHS[pi], transport, got, want))
    return ''


@cond(quick=dict(timeout=170), thorough=dict(timeout=300))
def url_formatting_table(si: int, hi: int, pi: int, qi: int, ws: bool) -> str:
    """
    pre: 0 <= si < len(SCHEMES) and 0 <= hi < len(HOSTS) and 0 <= pi < len(PATHS) and 0 <= qi < len(QUERIES)
    post: _ == ''
    """
    return verdict(untraced(_url_table, si, hi, pi, qi, ws))


def _request_urls(cfl, qi, ts, mode):
    """The URLs the client actually requests during a short conversation (handshake, polls, POSTs, WebSocket / upgrade
    connection), with the default request time-stamping on or off: every one goes to the endpoint, asks for protocol version 4
    and the transport in use, keeps the caller's query parameters, and (after the handshake) names the session."""
    import urllib.parse
    k = Kernel()
    fs = FakeServer(k)
    fs.heartbeat = False
    cl = _mk(cfl, k, fs, timestamp_requests=bool(ts))
    st = dict(client=cl.flavour, mode=('polling', 'websocket', 'upgraded')[mode], timestamps=bool(ts))
    try:
        q = QUERIES[qi]
        tr = ['websocket'] if mode == 1 else (None if mode == 2 else ['polling'])
        if mode == 0:
            fs.upgrades = []
        h = cl.call('connect', 'http://srv.example/ignored/path' + ('?' + q if q else ''), transports=tr)
        k.settle()
        if h.exc is not None or cl.state() != 'connected':
            return fail(PROP, 'SETUP', 'connect failed: %r' % (h.exc,), **st)
        cl.call('send', 'x')
        fs.push('4y')
        k.settle()
        k.run(until=k.now + 1)
        want = urllib.parse.parse_qs(q, keep_blank_values=True)
        seen = [(m_, u_) for m_, u_, b_, h_ in fs.requests] + [('WS', u_) for u_, l_, h_ in fs.links]
        if not seen:
            return fail(PROP, 'URL', 'no request was made', **st)
        for i, (m_, u_) in enumerate(seen):
            pr = urllib.parse.urlsplit(u_)
            got = urllib.parse.parse_qs(pr.query, keep_blank_values=True)
            exp_scheme = 'ws' if m_ == 'WS' else 'http'
            exp_tr = 'websocket' if m_ == 'WS' else 'polling'
            if pr.scheme != exp_scheme or pr.netloc != 'srv.example' or pr.path != '/engine.io/':
                return fail(PROP, 'URL', '%s request #%d goes to %r' % (m_, i, u_), **st)
            if (got.get('EIO') or [None])[-1] != '4' or (got.get('transport') or [None])[-1] != exp_tr:
                return fail(PROP, 'URL', '%s request #%d: %r (EIO / transport)' % (m_, i, u_), **st)
            for kq, vq in want.items():
                if (got.get(kq) or [])[:len(vq)] != vq:
                    return fail(PROP, 'URL-QUERY', '%s request #%d: caller\'s parameter %s=%r became %r in %r' % (m_, i, kq, vq, got.get(kq), u_), **st)
            first = i == 0 or (m_ == 'WS' and mode == 1)
            if not first and got.get('sid') != ['sid-1']:
                return fail(PROP, 'URL-SID', '%s request #%d does not name the session: %r' % (m_, i, u_), **st)
        return ''
    finally:
        cl.close()
        k.teardown()


@cond(quick=dict(timeout=120), thorough=dict(timeout=300))
def request_urls(cfl: int, qi: int, ts: bool, mode: int) -> str:
    """
    pre: 0 <= cfl <= 1 and 0 <= qi < len(QUERIES) and 0 <= mode <= 2
    post: _ == ''
    """
    return verdict(untraced(_request_urls, cfl, qi, ts, mode))


def _url_table(si, hi, pi, qi, ws):
    return _url_case(si, hi, pi, qi, ws, '')


@cond(quick=dict(S=1, timeout=300), thorough=dict(S=3, timeout=1200))
def url_formatting_symbolic_query(si: int, ws: bool, tail: str) -> str:
    """
    pre: 0 <= si <= 3 and len(tail) <= P.S
    post: _ == ''
    """
    # the caller's query string gets a symbolic tail (anything but the characters that would end the query component)
    if any(c in tail for c in '#?/ \t\r\n') or any(ord(c) < 33 or ord(c) > 126 for c in tail):
        return ''
    return verdict(_url_case(si, 1, 0, 1, ws, tail))


from vf.validate.stubs import ALL as VALIDATE  # noqa: E402  (stub-vs-real conformance, run before the obligations)
