"""Self-test conditions for the runner (not a property)."""
from vf.rt import P, cond, verdict, fail
from engineio import packet

@cond(quick=dict(S=4, timeout=20))
def ok(t: int, s: str) -> str:
    """
    pre: 0 <= t <= 6 and len(s) <= P.S
    post: _ == ''
    """
    e = packet.Packet(t, s).encode()
    if e != str(t) + s:
        return verdict(fail('C00', 'WIRE', repr(e)))
    return verdict('')

@cond(quick=dict(timeout=20))
def bad(b: bytes, f: bool) -> str:
    """
    pre: len(b) <= 2
    post: _ == ''
    """
    p = packet.Packet(4, b)
    p.encode(b64=f)
    e = p.encode(b64=True)
    if not isinstance(e, str):
        return verdict(fail('C00', 'B64', repr(e)))
    return verdict('')

@cond(quick=dict(timeout=20))
def boom(t: int) -> str:
    """
    pre: 0 <= t <= 3
    post: _ == ''
    """
    if t == 2:
        raise KeyError('x')
    return verdict('')

@cond(quick=dict(timeout=10))
def vacuous(t: int) -> str:
    """
    pre: 0 <= t <= 3
    post: _ == ''
    """
    if t < 5:
        return ''
    return verdict('')
