"""Concrete re-execution of a harness in a plain interpreter (no CrossHair, no tracing).

usage: python -m vf.replay <module> <fn> <params-json> <args-repr> [--profile] [--twin]

Prints one JSON object: {"result": str} or {"exception": "Type: msg"}; with --profile also
the engineio functions that actually executed ("functions").
"""
import ast
import importlib
import json
import sys
import traceback


def parse_call(message, fname):
    """Extract the positional/keyword arguments of ``fname(...)`` from a CrossHair message."""
    key = 'when calling ' + fname + '('
    i = message.find(key)
    if i < 0:
        raise ValueError('no call in message: %r' % message)
    start = i + len('when calling ')
    for j in range(start + len(fname) + 1, len(message) + 1):
        if message[j - 1] != ')':
            continue
        src = message[start:j]
        try:
            tree = ast.parse(src, mode='eval')
        except SyntaxError:
            continue
        if isinstance(tree.body, ast.Call):
            return src
    raise ValueError('unbalanced call in message: %r' % message)


def eval_call(src, fname):
    cap = lambda *a, **k: (list(a), k)  # noqa: E731
    env = {fname: cap, 'bytearray': bytearray, 'float': float, 'nan': float('nan'), 'inf': float('inf')}
    return eval(src, {'__builtins__': {}}, env)


def run(module, fname, params, call_src, profile=False, twin=False):
    from vf import rt
    rt.set_params(params)
    rt.MODE = 'twin' if twin else 'check'
    mod = importlib.import_module(module)
    fn = getattr(mod, fname)
    args, kwargs = eval_call(call_src, fname)
    seen = set()
    out = {}

    def prof(frame, event, arg):
        if event == 'call':
            g = frame.f_globals.get('__name__', '')
            if g.startswith('engineio'):
                code = frame.f_code
                seen.add(g + '.' + getattr(code, 'co_qualname', code.co_name))
    try:
        import greenlet
        settrace = getattr(greenlet, 'settrace', None)
    except ImportError:
        settrace = None
    if profile:
        sys.setprofile(prof)
        if settrace:
            # profile hooks are per-thread-state; re-install them whenever a greenlet starts
            def gtrace(event, a):
                sys.setprofile(prof)
            settrace(gtrace)
    try:
        res = fn(*args, **kwargs)
        out['result'] = res
    except Exception as e:
        out['exception'] = '%s: %s' % (type(e).__name__, e)
        out['traceback'] = traceback.format_exc()[-3000:]
    finally:
        if profile:
            sys.setprofile(None)
            if settrace:
                settrace(None)
    out['functions'] = sorted(seen)
    out['waived'] = [list(w[:2]) + [w[2]] for w in rt.WAIVED]
    out['untraced'] = rt.UNTRACED_CALLS[0] > 0
    return out


def main():
    module, fname, params_json, call_src = sys.argv[1:5]
    flags = sys.argv[5:]
    out = run(module, fname, json.loads(params_json), call_src,
              profile='--profile' in flags, twin='--twin' in flags)
    sys.stdout.write('\n' + json.dumps(out, default=repr) + '\n')


if __name__ == '__main__':
    main()
