#!/bin/bash
# Build the overlay interpreter (offline): /venv's packages + /repo/src + crosshair-tool from the wheelhouse.
set -e
cd "$(dirname "$0")"
exec 9>/tmp/.verif-engineio-setup.lock
flock 9
if [ ! -x .venv/bin/python ] || ! .venv/bin/python -c "import crosshair, z3, engineio, greenlet" 2>/dev/null; then
  rm -rf .venv
  /venv/bin/python -m venv .venv
  SP=$(.venv/bin/python -c "import sysconfig; print(sysconfig.get_paths()['purelib'])")
  printf '/venv/lib/python3.12/site-packages\n/repo/src\n' > "$SP/_verif_overlay.pth"
  PIP_NO_INDEX=1 .venv/bin/pip install -q --no-index --find-links /opt/veriftools/wheels crosshair-tool
  .venv/bin/python -c "import crosshair, z3, engineio, greenlet"
fi
