#!/usr/bin/env python3
"""Record the obligations confirmed on the current tree (per tier) in baseline_verdicts.json from the evidence files
of the last runs. Usage: tools/mkbaseline.py [tier]  (merges into the existing file)."""
import glob, json, os, sys
ROOT = os.path.dirname(os.path.dirname(os.path.abspath(__file__)))
path = os.path.join(ROOT, 'baseline_verdicts.json')
try:
    base = json.load(open(path))
except (OSError, ValueError):
    base = {}
for f in sorted(glob.glob(os.path.join(ROOT, 'evidence', 'C*.json'))):
    ev = json.load(open(f))
    if len(sys.argv) > 1 and ev['tier'] != sys.argv[1]:
        continue
    base.setdefault(ev['property_id'], {})[ev['tier']] = sorted(ev['coverage'].get('discharged_conditions', []))
json.dump(base, open(path, 'w'), indent=1, sort_keys=True)
print({k: {t: len(v) for t, v in d.items()} for k, d in base.items()})
