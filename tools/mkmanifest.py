#!/usr/bin/env python3
"""Regenerate /verif/MANIFEST.json from the table below (keeps it schema-valid at all times)."""
import json
import os
import subprocess

ROOT = os.path.dirname(os.path.dirname(os.path.abspath(__file__)))

XH = 'CrossHair 0.0.110 symbolic execution of the real engineio modules (z3 decides every branch), bounded'
SIM = XH + ', inside the injected simulated environment (cooperative kernel, virtual clock, WSGI/ASGI gateway stubs)'

# property -> (technique, level text, level note, design ref)
CHECKS = {
    'C01': (XH + '; unit harnesses on Packet.encode/decode with independent reference models',
            'For every value inside the stated pre: bounds (text length, byte-string length, table of JSON shapes, all '
            'encode histories of length 3-4) the wire form / inversion clauses hold on every execution path; the verdict '
            'is "Confirmed over all paths" per condition, or a replayed counterexample.',
            'Trusted: CrossHair models, z3, stdlib json/base64 (abstracted by the json=/base64 seams where symbolic text '
            'cannot cross the C boundary, and compared with reference models on tables).', '§3 C01'),
    'C02': (XH + '; unit harnesses on Payload.encode/decode, symbolic packet counts and an unbounded symbolic limit',
            'Join exactness, inversion, d= form equivalence, the packet limit (for every positive limit) and totality '
            'hold on every path inside the stated bounds.',
            'Trusted: CrossHair models, z3, urllib.parse; packet-type characters range over an adversarial table '
            '(int(str) is not exhaustible symbolically).', '§3 C02'),
    'C17': ('z3 bit-vector queries over an encoding generated from the AST of BaseServer.generate_id (negated clause must be unsat); translation validated against the real method; sat models replayed on the real method',
            'Complete over the finite domain: for EVERY value of the random source (96 bits) and EVERY counter value in [0, 2^24) the id '
            'has 20 URL-safe characters, distinct counters give distinct ids, the counter steps by one modulo 2^24 (so any 2^24 '
            'consecutive ids are pairwise distinct, by the step lemmas), and all random bits are embedded injectively.',
            'Trusted: z3 (cvc5 cross-check in the thorough tier), the AST translator (validated on 259 concrete pairs per run), '
            'secrets.token_bytes being the OS CSPRNG.', '§3 C17'),
    'C04': (SIM + '; symbolic packet types 0-9, payload selectors, body shapes, dispatch mode and poll-pending flag against a reference dispatcher',
            'For every body / frame sequence inside the stated bounds, on both servers and both handler dispatch modes, the '
            'message events, request status, session ending, NOOP answers and heartbeat re-arming equal the reference on '
            'every execution path; refused bodies produce no message event.',
            'Trusted: CrossHair, z3, the simulated environment (cooperative schedules only). Known finding F6 (POST blocked '
            'in close(wait=True)) is waived for exactly the state classes listed in known_findings.json.', '§3 C04'),
    'C12': (SIM + '; symbolic selectors over method x EIO x transport x session kind x Upgrade/Connection headers x JSONP index x configured transports; reference admission table; differential no-effect oracle',
            'Every request of the bounded cross product that the statement says must be refused is answered 400/405 (or the '
            'websocket handshake is rejected) on every path, on both servers, and the follow-up observations of every session '
            'equal those of the run without the refused request.',
            'Trusted: CrossHair, z3, the simulated environment. One-directional ("admitted only if"): admitted requests are not judged here.', '§3 C12'),
    'C15': (SIM + '; gateway-grammar monitors (WSGI start_response/body, ASGI http and websocket event order), status set, exception and termination-at-horizon checks over the symbolic request product, malformed bodies and API calls in every session state',
            'For every request / API call inside the bounded product, on both gateways: exactly one well-formed response, status in '
            '{200,400,401,405}, no escaping exception and the task finished when the kernel is quiescent at now+ping_interval+ping_timeout+1.',
            'Trusted: CrossHair, z3, the simulated environment (termination is judged on the virtual clock under cooperative scheduling). '
            'Known finding F6 (close(wait=True) never returns for sessions not on WebSocket) is waived for the listed state classes only.', '§3 C15'),
    'C14': (SIM + '; symbolic integers for the declared Content-Length (unbounded on WSGI), the configured limit and packet counts; a recording body reader; frames compared against the symbolic limit on WebSocket-first, upgraded and mid-handshake sessions',
            'For every declared length / limit / frame length / packet count inside the stated ranges: nothing from an oversize body or frame '
            'reaches a handler, the reader is never asked for more than min(declared, limit) bytes (WSGI), bodies and frames of exactly the '
            'limit are accepted, oversize input ends the session, at most 16 packets of a body are processed.',
            'Trusted: CrossHair, z3, the simulated environment. The limit ranges over 1..MAXM because the OPEN packet renders it in decimal '
            '(str of an unbounded symbolic int is not exhaustible). Known finding F6 waived for the oversize-POST-never-completes state classes.', '§3 C14'),
    'C19': (XH + '; JSONP bodies of symbolic payload texts evaluated by an independent ES2019 string-literal evaluator; request sequences on both servers with an unbounded symbolic compression threshold, Accept-Encoding table and tagging stubs for zlib/gzip',
            'For every payload text inside the bound the JSONP body is exactly one ___eio[i]("...") statement whose literal evaluates to the payload; '
            'for every threshold (any integer), Accept-Encoding shape and request order in the tables a Content-Encoding is declared only if offered, '
            'enabled and the body reached the threshold, the body is exactly the declared transform of the payload, and labels never leak to later responses or other server instances.',
            'Trusted: CrossHair, z3, the JS literal evaluator (oracle), zlib/gzip losslessness (validated concretely per run).', '§3 C19'),
    'C11': (SIM + '; symbolic integer heartbeat settings (bounded), fractional table in exact rationals, selectors for transports / upgrades / WebSocket availability / cookie forms / connect outcomes / JSONP; advertised upgrades are attempted in the same run',
            'For every configuration inside the bounds, on both servers: one session, OPEN first with the handler\'s sid and the configured numbers, '
            'websocket advertised only if the upgrade attempted right afterwards is accepted, Set-Cookie exactly when configured with sid and attributes, '
            '401 (+ truthy value) and an unaddressable id for every rejecting connect outcome.',
            'Trusted: CrossHair, z3, the simulated environment. Integer settings are bounded because they are rendered in decimal; selector-only conditions run the scenario concretely per solver-enumerated selector tuple.', '§3 C11'),
    'C13': (SIM + '; symbolic Origin header (allowed / truncated / foreign prefix + symbolic Unicode tail), selectors for cors_allowed_origins forms, credentials, X-Forwarded-* and request kind; independent allowed() predicate',
            'For every Origin text inside the bound and every configuration / request kind in the tables, on both servers: a disallowed Origin is answered 400 '
            '(websocket handshake rejected) with no event, no session and an untouched queue; allowed or absent origins are not refused; '
            'Access-Control-Allow-Origin only echoes an allowed request origin; Allow-Credentials only when enabled; nothing with an empty allow-list.',
            'Trusted: CrossHair string models, z3, the simulated environment, the json.dumps seam on the asyncio refusal message.', '§3 C13'),
    'C20': (XH + '; symbolic request path ("/" + Unicode tail) through get_static_file, WSGIApp and ASGIApp with file-system stubs (symbolic exists()), segment tables for deep / dot-dot / empty-segment paths, lifespan event x callback tables',
            'For every path inside the bounds and every mapping / endpoint / wrapped-app / exists combination in the tables: the request is routed to the engine exactly when the path is under the endpoint, '
            'to a static file exactly when a mapping matches and the file exists, else to the wrapped app or 404; the path handed to open() is the mapped file or lies (after lexical normalisation) beneath the mapped directory; lifespan events are answered per protocol.',
            'Trusted: CrossHair string models, z3, the file-system stubs. Fully symbolic tails are exhausted only for mappings without a \'\' or \'/\' key (CrossHair realises characters in str.rsplit); the others are covered by the segment tables.', '§3 C20'),
    'C06': (SIM + '; frames on the upgrade socket chosen by solver-enumerated selectors from a table (correct, wrong type/payload, oversize, empty, binary, undecodable, close, transport error) x poll pending x sends before/during x transports setting; each selector tuple runs the scenario concretely',
            'For every frame sequence of length <= 2 from the table, on both servers (asyncio through the real ASGI WebSocket driver): the session is on WebSocket '
            'iff the frames were PING probe then UPGRADE; after any other sequence everything queued is delivered by polling, in order and once, and a later correct '
            'handshake succeeds; a completed upgrade refuses a second one without disturbing the first socket; a disallowed transport is never used.',
            'Trusted: CrossHair (selector enumeration), z3, the simulated environment.', '§3 C06'),
    'C03': (SIM + '; solver-enumerated counts of send() calls in five slots around the upgrade handshake (one slot with bursts up to 20), poll-pending / late-poll flags, handshake outcome, second session, first scheduling decisions; client-side monitor',
            'For every scenario inside the bounds, on both servers: each session receives only its own messages, without duplicates, in send order, all of them when the client keeps reading; '
            'a poll answered while something is queued returns all of it; polls started after the upgrade began return only NOOP; after a failed handshake polling delivers the backlog.',
            'Trusted: CrossHair (selector enumeration), z3, the simulated environment (cooperative schedules).', '§3 C03'),
    'C05': (SIM + '; solver-enumerated bounded histories over an alphabet of traffic and end causes, three transport modes, handler exceptions of several types (incl. TypeError, legacy one-argument disconnect handler), connect outcomes; regular-language monitor on the handler log',
            'For every history inside the bounds, on both servers: connect first and once; exactly one disconnect naming the first end cause; no event for the session afterwards, '
            'including for requests and frames injected later; nothing at all after a rejected connect; handler exceptions change neither the protocol nor the other session.',
            'Trusted: CrossHair (selector enumeration), z3, the simulated environment. Known finding F6 waived for histories in which the threaded disconnect() is blocked.', '§3 C05'),
    'C07': (SIM + ' with a virtual clock; solver-enumerated integer grid of PONG delays, send times and monitor-sweep phases over a table of (ping_interval, ping_timeout) pairs, plus a genuinely symbolic (unbounded) send time relative to an unanswered PING',
            'For every timing on the integer grid of each configured pair, on both servers, polling and WebSocket, monitoring on/off: PINGs come exactly ping_interval after OPEN / PONG; a peer answering within ping_timeout is never dropped for timeout; '
            'a silent peer is dropped within ping_interval + 3 x ping_timeout of its last PONG with monitoring on, and at the first send after the deadline in any case (for EVERY send time, symbolic); an unserved poll is answered with an error.',
            'Trusted: CrossHair, z3, the simulated environment and its virtual integer clock (ties at exactly ping_timeout between a PONG and the poll / read timeout are not judged).', '§3 C07'),
    'C16': (SIM + ' with client monitoring on; solver-enumerated fates for up to three sessions (alive on each transport, rejected, ended by each cause, client vanishing silently / mid-poll / mid-upgrade before or after the probe), then a bounded number of monitor sweeps on the virtual clock',
            'For every combination of fates inside the bounds, on both servers: after interval + 3 x timeout + two sweeps the session table holds exactly the live sessions; every dead, rejected or never-issued id is a silent no-op for send() and raises KeyError from get_session / save_session / session() / transport(); '
            'user data is visible only through its own session and is gone with it.',
            'Trusted: CrossHair (selector enumeration), z3, the simulated environment. Reads len/keys of server.sockets (the one private observation allowed by DESIGN.md).', '§3 C16'),
    'C18': (SIM + '; differential: the same solver-enumerated history (34-step alphabet, length <= 3 quick / 4 thorough) drives the threaded server and the asyncio server in two kernels with the same virtual clock; normalised observations compared after every step',
            'For every history inside the bounds the two servers produce the same application event log per session (kind, payload, order, reason of client/application ends), hand the client the same messages in the same order on the same transport, '
            'answer every request of the step with the same status, and agree on liveness and transport of every session; silence-caused ends are only required within the heartbeat bound on both.',
            'Trusted: CrossHair (selector enumeration), z3, the two simulated environments. Requests blocked by known finding F6 are not compared.', '§3 C18'),
    'C10': (SIM + '; a real Client/AsyncClient (http_session= seam, stubbed requests / websocket-client / aiohttp transports) connected to a real Server/AsyncServer in one kernel; solver-enumerated pair, transports, burst sizes, payload kinds, idle heartbeat cycles, disconnecting side',
            'For every conversation inside the bounds, for all 2x2 implementation pairs and the three transport choices: both sides see one connect, agree on the transport, every message sent by either side (bursts up to the bound, text/JSON/binary) is received exactly once and equal, '
            'idle connections survive several heartbeat cycles, and a disconnect by either side is observed exactly once on each side.',
            'Trusted: CrossHair (selector enumeration), z3, the simulated environment and client transport stubs.', '§3 C10'),
    'C08': (SIM + ' (client side); the real Client and AsyncClient against a scripted server: solver-enumerated handshake outcome x end cause x second connect cycle',
            'For every combination in the tables, for both clients: connect() raises ConnectionError and leaves a disconnected, reusable client, or fires connect once and adopts sid / transport / timing; every established connection ends with exactly one disconnect of the right reason class, '
            'state disconnected, sid cleared, no later event, all background tasks finished (wait() returns), connect() works again; send()/disconnect() on a disconnected client do nothing.',
            'Trusted: CrossHair (selector enumeration), z3, the kernel, the client transport stubs and the scripted server.', '§3 C08'),
    'C09': (SIM + ' (client side); symbolic PING text through the real clients, solver-enumerated server scripts / send sequences / probe answers / silence points against a scripted server; _get_engineio_url on symbolic URL parts',
            'For every PING text inside the bound the PONG carries the same text; for every script and send sequence in the tables, on both clients and all transport modes, messages reach the handler once and in arrival order with the decoded payload, sends reach the server once and in order on the transport in use '
            '(binary as binary frames / base64), the upgrade is sent only after PONG probe and nothing queued is lost otherwise, silence is detected within the bound, and the request URL equals the reference formatting.',
            'Trusted: CrossHair, z3, the kernel, client transport stubs, scripted server; the json seam in the symbolic PING condition.', '§3 C09'),
}

NOT_BUILT = 'check not built yet in this round (see DESIGN.md §8 build order); not claimed until it runs'


def main():
    props = [json.loads(l) for l in open(os.path.join(ROOT, 'properties.jsonl'))]
    checks = []
    na = []
    for p in props:
        pid = p['id']
        if pid in CHECKS and os.path.exists(os.path.join(ROOT, 'vf', 'props', pid.lower() + '.py')):
            tech, text, note, ref = CHECKS[pid]
            checks.append({
                'property_id': pid,
                'quick_cmd': './check %s --tier quick' % pid,
                'thorough_cmd': './check %s --tier thorough' % pid,
                'evidence_file': '/verif/evidence/%s.json' % pid,
                'replay_cmd_template': './check %s --replay {path}' % pid,
                'engine': 'vf',
                'level_claimed': {'category': 'other', 'text': text, 'design_ref': ref},
                'level_note': note,
                'technique': tech,
            })
        else:
            na.append({'property_id': pid, 'reason': NA.get(pid, NOT_BUILT)})
    try:
        commits = subprocess.run(['git', '-C', '/repo', 'log', '--format=%H %s'], capture_output=True, text=True).stdout
        fixes = [l.split()[0] for l in commits.splitlines() if l.split(' ', 1)[1].startswith('fix:')]
    except Exception:  # noqa
        fixes = []
    man = {
        'version': 1,
        'setup_cmd': './setup.sh',
        'hooks': {
            'guard': 'ENGINEIO_VERIF',
            'enable': 'no hooks: every seam is injected from outside (server._async[...], module globals time/asyncio/'
                      'base64, Packet.json, http_session=); the guard variable is reserved and unused',
            'baseline_off_cmd': 'cd /repo && /venv/bin/python -m pytest -ra -q -p no:cacheprovider --timeout=900 '
                                '--continue-on-collection-errors',
            'source_commits': [],
            'add_only': True,
        },
        'engines': [{'name': 'vf', 'path': '/verif/vf', 'serves_properties': [c['property_id'] for c in checks],
                     'kind_free_text': 'bounded symbolic execution of the real code: CrossHair + z3 over harnesses that '
                                       'drive the unmodified engineio modules; direct z3 bit-vector queries generated '
                                       'from the AST for generate_id'}],
        'checks': checks,
        'not_applicable': na,
        'notes': 'fix: commits in /repo (unguarded repairs of genuine defects): %s. Known findings: '
                 '/verif/known_findings.json. Exit codes: 0 ok, 1 violation (replayed), 3 harness error.' % (
                     ', '.join(f[:10] for f in fixes) or 'none'),
    }
    with open(os.path.join(ROOT, 'MANIFEST.json'), 'w') as f:
        json.dump(man, f, indent=1)
    print('claimed:', [c['property_id'] for c in checks], 'not claimed:', len(na))


NA = {}

if __name__ == '__main__':
    main()
