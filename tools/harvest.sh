#!/bin/bash
# tools/harvest.sh <PROP> <seed-name> <worktree>: confirm a sub-agent's seeded change and store it under /verif/seeded/<seed-name>/
set -u
PROP=$1; NAME=$2; WT=$3
OUT=/verif/seeded/$NAME
mkdir -p $OUT
cd $WT || exit 2
git diff -- src > $OUT/patch.diff
cp demo.py $OUT/demo.py
[ -s $OUT/patch.diff ] || { echo "empty patch"; exit 2; }
run_tests() { PYTHONPATH=$WT/src /venv/bin/python -m pytest -q -p no:cacheprovider --timeout=900 --continue-on-collection-errors -rfE 2>&1 | grep -E '^(FAILED|ERROR) ' | sed 's/ - .*//' | sort; }
count() { PYTHONPATH=$WT/src /venv/bin/python -m pytest -q -p no:cacheprovider --timeout=900 --continue-on-collection-errors 2>&1 | tail -1; }
# with the change
run_tests > /tmp/h-$NAME-with.txt; WITH_SUM=$(count)
PYTHONPATH=$WT/src timeout 120 /venv/bin/python demo.py > /tmp/h-$NAME-demo-with.txt 2>&1; DW=$?
git checkout -q -- src
run_tests > /tmp/h-$NAME-without.txt; WO_SUM=$(count)
PYTHONPATH=$WT/src timeout 120 /venv/bin/python demo.py > /tmp/h-$NAME-demo-without.txt 2>&1; DWO=$?
git apply $OUT/patch.diff
SAME=no; diff -q /tmp/h-$NAME-with.txt /tmp/h-$NAME-without.txt >/dev/null && SAME=yes
echo "tests with: $WITH_SUM | without: $WO_SUM | same failing set: $SAME | demo with=$DW without=$DWO"
python3 - <<PY
import json
json.dump({"property": "$PROP", "name": "$NAME",
  "tests_with_change": """$WITH_SUM""".strip(), "tests_without_change": """$WO_SUM""".strip(),
  "same_failing_test_ids": "$SAME" == "yes", "demo_exit_with_change": $DW, "demo_exit_without_change": $DWO,
  "demo_output_with_change_head": open("/tmp/h-$NAME-demo-with.txt").read()[:1500],
  "commands": ["PYTHONPATH=<wt>/src /venv/bin/python -m pytest -q -p no:cacheprovider --timeout=900 --continue-on-collection-errors -rfE (with and without patch; FAILED/ERROR id lists diffed)", "PYTHONPATH=<wt>/src /venv/bin/python demo.py (with and without patch)"],
  "needs": "", "breaks_clause": "", "detected_by": ""}, open("$OUT/meta.json", "w"), indent=1)
PY
