#!/bin/bash
# tools/try_seed.sh <seed-name> <PROP> [extra args for ./check]: apply a seeded change to /repo, run the check, undo it.
NAME=$1; PROP=$2; shift 2
cd /verif
git -C /repo diff --quiet || { echo "/repo has uncommitted changes"; exit 2; }
PATCH=/verif/seeded/$NAME/patch.diff; [ -f /verif/seeded/$NAME/patch_on_current.diff ] && PATCH=/verif/seeded/$NAME/patch_on_current.diff
git -C /repo apply $PATCH 2>/tmp/apply.err || { echo "patch does not apply"; cat /tmp/apply.err; git -C /repo reset -q --hard HEAD; exit 2; }
VF_EVIDENCE_DIR=/tmp/seed-evidence ./check $PROP "$@" > /tmp/try-$NAME-$PROP.log 2>&1; RC=$?
git -C /repo reset -q; git -C /repo checkout -q -- .
grep -E "^(VIOLATION|  clause|HARNESS-ERROR|REGRESSED)" /tmp/try-$NAME-$PROP.log | head -8
tail -1 /tmp/try-$NAME-$PROP.log
echo "seed=$NAME prop=$PROP rc=$RC"
