"""Print the sub-agent prompt for a seeded change against one property (text of the property only)."""
import json, sys
pid = sys.argv[1]; wt = sys.argv[2]
variant = sys.argv[3] if len(sys.argv) > 3 else ''
for l in open('/verif/properties.jsonl'):
    p = json.loads(l)
    if p['id'] == pid:
        break
print(f"""You are helping to evaluate a verification effort for the open-source Python package python-engineio (miguelgrinberg/python-engineio: Engine.IO client and server). You have your own scratch git worktree of the repository at {wt} (source under {wt}/src/engineio, tests under {wt}/tests). Work ONLY inside {wt} (never touch /repo or /verif, never read /verif).

Run python as:  cd {wt} && PYTHONPATH={wt}/src /venv/bin/python ...   (check that `import engineio; engineio.__file__` points into {wt}).
Run the existing test-suite as:  cd {wt} && PYTHONPATH={wt}/src /venv/bin/python -m pytest -q -p no:cacheprovider --timeout=900 --continue-on-collection-errors -rfE 2>&1 | tail -40
On the unmodified tree 377 tests pass and 28 tests / 1 collection error fail for environment reasons (tests/common/test_client.py cannot be collected because the installed `websocket`/`requests` packages are not the ones the client needs - so for client-side demos you must inject fakes: pass http_session=<fake> and patch engineio.client.websocket / engineio.client.requests or the aiohttp session as needed; about 27 tests in tests/common/test_server.py fail); those failures are expected and must be THE SAME SET before and after your change (compare the lists of failing test ids, e.g. with `-rf`, not just counts). No network is available; nothing can be installed.

THE PROPERTY (a semantic property the package is supposed to satisfy):

  Title: {p['title']}
  Statement: {p['statement']}
  Quantified over: {p['quantifier']['text']}

YOUR TASK: produce ONE realistic change (a plausible bug a maintainer could introduce by a refactoring, optimisation, clean-up or feature tweak — not sabotage that looks deliberate) to the package source under {wt}/src/engineio that BREAKS this property, while
  (a) the package still imports/compiles, and
  (b) exactly the same existing tests pass as before (all 377 that passed still pass).
The change must need SOMETHING SPECIFIC to manifest: a particular interleaving, a fault or close at a particular point, a multi-step sequence of operations, an unusual input or boundary value, a particular configuration, or two cooperating sites that each look fine alone. Do NOT produce a change that ordinary use would expose at once (e.g. every message lost, every connection failing). {variant}

Also write a DEMONSTRATION: a small self-contained python program {wt}/demo.py (it may use asyncio, threads, mocks, and the package's public API and request entry points such as Server.handle_request(environ, start_response) / AsyncServer.handle_request(scope, receive, send) with async_mode='threading' / 'asgi', or the Client classes with a fake http_session) that exits 0 on the unmodified source and exits non-zero (printing what went wrong) with your change applied. The demo must fail BECAUSE the property is violated, observing behaviour through public API / wire data rather than private attributes where possible. It must finish in under 60 seconds and be deterministic.

Steps: read the relevant source; pick the change; apply it in the worktree; run the test-suite and confirm the same tests pass; write demo.py; confirm demo.py fails with the change; run `git -C {wt} stash` style check (or `git diff > /tmp/x; git checkout -- src; run demo; git apply /tmp/x`) to confirm demo.py passes WITHOUT the change; leave the worktree WITH the change applied (uncommitted, so that `git -C {wt} diff -- src` shows it) and demo.py present (untracked).

Finish with a short report: the diff, what specific circumstances are needed for the violation to manifest, which clause of the property it breaks, the exact commands you ran and their outcomes (test-suite pass/fail counts before and after, demo exit codes with and without the change).""")
