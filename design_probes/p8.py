import base64, secrets
from typing import List
from engineio import base_server, static_files, payload, packet

class FakeSelf:
    sequence_number = 0

def gen_id(rnd: bytes, seq: int) -> str:
    """
    pre: len(rnd) == 12
    pre: 0 <= seq < 2**24
    post: len(_) == 20
    """
    fs = FakeSelf(); fs.sequence_number = seq
    orig = secrets.token_bytes
    base_server.secrets.token_bytes = lambda n: rnd[:n]
    try:
        return base_server.BaseServer.generate_id(fs)
    finally:
        base_server.secrets.token_bytes = orig

def gen_id_distinct(rnd1: bytes, rnd2: bytes, seq1: int, seq2: int) -> bool:
    """
    pre: len(rnd1) == 12 and len(rnd2) == 12
    pre: 0 <= seq1 < 2**24 and 0 <= seq2 < 2**24 and seq1 != seq2
    post: _
    """
    orig = secrets.token_bytes
    try:
        fs = FakeSelf(); fs.sequence_number = seq1
        base_server.secrets.token_bytes = lambda n: rnd1[:n]
        a = base_server.BaseServer.generate_id(fs)
        fs2 = FakeSelf(); fs2.sequence_number = seq2
        base_server.secrets.token_bytes = lambda n: rnd2[:n]
        b = base_server.BaseServer.generate_id(fs2)
        return a != b
    finally:
        base_server.secrets.token_bytes = orig

SF = {'/static': '/srv/pub', '/index.html': '/srv/index.html'}
def static_inside(path: str) -> bool:
    """
    pre: len(path) <= 12
    pre: path.startswith('/')
    post: _
    """
    f = static_files.get_static_file(path, SF)
    if f is None:
        return True
    fn = f['filename']
    if fn == '/srv/index.html':
        return True
    if not fn.startswith('/srv/pub'):
        return False
    depth = 0
    for seg in fn[len('/srv/pub'):].split('/'):
        if seg == '..':
            depth -= 1
            if depth < 0:
                return False
        elif seg not in ('', '.'):
            depth += 1
    return True

def jsonp_lossless(s: str, idx: int) -> bool:
    """
    pre: len(s) <= 3
    pre: 0 <= idx <= 10**6
    post: _
    """
    body = payload.Payload([packet.Packet(packet.MESSAGE, s)]).encode(jsonp_index=idx)
    pre = '___eio[' + str(idx) + ']("'
    if not body.startswith(pre) or not body.endswith('");'):
        return False
    lit = body[len(pre):-3]
    # JS string literal evaluation (subset): backslash escapes, raw line terminators illegal
    out = ''
    i = 0
    while i < len(lit):
        c = lit[i]
        if c == '"' or c == '\n' or c == '\r':
            return False
        if c == '\\':
            if i + 1 >= len(lit):
                return False
            n = lit[i + 1]
            out += {'n': '\n', 't': '\t', 'r': '\r', 'b': '\b', 'f': '\f', 'v': '\v', '0': '\0'}.get(n, n)
            i += 2
        else:
            out += c
            i += 1
    return out == '4' + s
