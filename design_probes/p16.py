from typing import List
from engineio import async_server, async_socket, packet, payload
import asimk, simk
from p7 import request

class ChoiceKernel(asimk.AKernel):
    """like AKernel, but the first len(choices) scheduling decisions are taken from `choices`"""
    def __init__(self, choices):
        super().__init__(); self.choices = list(choices); self.decisions = 0
    def _runnable(self, t):
        return (not t.done_) and (t.cond is None or t.cond() or (t.deadline is not None and self.now >= t.deadline))
    def run(self, until=None):
        while True:
            ready = [t for t in self.tasks if self._runnable(t)]
            if ready:
                idx = 0
                if len(ready) > 1 and self.choices:
                    idx = self.choices.pop(0) % len(ready); self.decisions += 1
                t = ready[idx]
                t.cond = None; self.current = t
                try:
                    t.coro.send(None)
                except StopIteration as e:
                    t.done_ = True; t.result_ = e.value
                except asimk.CancelledError as e:
                    t.done_ = True; t.exc = e
                except Exception as e:
                    t.done_ = True; t.exc = e
                self.current = None
                if t.done_:
                    for cb in t.callbacks: cb(t)
                continue
            dls = [t.deadline for t in self.tasks if not t.done_ and t.deadline is not None]
            if not dls:
                if until is not None and self.now < until: self.now = until
                return
            nxt = min(dls)
            if until is not None and nxt > until:
                self.now = until; return
            self.now = nxt

def ws_open(k, srv, sid):
    sent = []; inbox = [{'type': 'websocket.connect'}]
    async def receive():
        await k.ablock(lambda: bool(inbox)); return inbox.pop(0)
    async def send(ev): sent.append(ev)
    scope = {'type': 'websocket', 'path': '/engine.io/', 'query_string': ('transport=websocket&sid=' + sid).encode(),
             'headers': [(b'upgrade', b'websocket'), (b'connection', b'Upgrade')]}
    t = k.spawn(srv.handle_request(scope, receive, send))
    return t, sent, inbox

def ac03(n0: int, n1: int, n2: int, n3: int, n4: int, pending: bool, late: bool, c0: int, c1: int) -> str:
    """
    pre: 0 <= n0 <= 1 and 0 <= n1 <= 1 and 0 <= n2 <= 1 and 0 <= n3 <= 1 and 0 <= n4 <= 1
    pre: 0 <= c0 <= 2 and 0 <= c1 <= 2
    post: _ == ''
    """
    k = ChoiceKernel([c0, c1]); k.now = 1000
    shim = asimk.make_shim(k)
    async_server.asyncio = shim; async_socket.asyncio = shim; async_socket.time = simk.Clock(k)
    srv = async_server.AsyncServer(async_mode='asgi', logger=simk.NullLogger(), async_handlers=False, monitor_clients=False)
    events = []
    srv.on('connect', lambda sid, env: events.append(('connect', sid)))
    t, sent = request(k, srv, 'GET', 'transport=polling&EIO=4'); k.run(until=k.now)
    sid = events[0][1]
    seq = [0]; polls = []
    def sends(n):
        for _ in range(n):
            k.spawn(srv.send(sid, 'm%d' % seq[0])); seq[0] += 1
    def poll(tag):
        tt, oo = request(k, srv, 'GET', 'transport=polling&sid=' + sid); polls.append((tag, tt, oo))
    sends(n0)
    if pending: poll('pre')
    sends(n1)                      # NOTE: not run to quiescence in between: scheduler choices matter
    k.run(until=k.now)
    tw, wsent, inbox = ws_open(k, srv, sid)
    sends(n2); k.run(until=k.now)
    inbox.append({'type': 'websocket.receive', 'text': '2probe'})
    sends(n3)
    if late: poll('late')
    k.run(until=k.now)
    inbox.append({'type': 'websocket.receive', 'text': '5'})
    sends(n4); k.run(until=k.now)
    frames = [e.get('text') for e in wsent if e['type'] == 'websocket.send']
    if frames[:1] != ['3probe']:
        return 'no pong probe %r' % (frames,)
    allm = []
    for tag, tt, oo in polls:
        if not tt.done_:
            return 'poll %s still pending' % tag
        body = oo[1]['body'].decode()
        pk = payload.Payload(encoded_payload=body).packets
        if tag == 'late' and [p.packet_type for p in pk] != [6]:
            return 'late poll returned types %r' % ([p.packet_type for p in pk],)
        allm += [p.data for p in pk if p.packet_type == 4]
    allm += [f[1:] for f in frames[1:] if f and f[0] == '4']
    exp = ['m%d' % i for i in range(seq[0])]
    if sorted(allm) != sorted(exp):
        return 'lost/dup: got %r exp %r' % (allm, exp)
    return ''
if __name__ == '__main__':
    print(repr(ac03(1,1,1,1,1,True,True,0,0)), repr(ac03(1,1,1,1,1,True,True,2,1)))
