import io, threading, time
from engineio import server
srv = server.Server(async_mode='threading', monitor_clients=False, ping_interval=3, ping_timeout=2)
ev=[]
srv.on('connect', lambda sid, env: ev.append(('c',sid)))
srv.on('disconnect', lambda sid, r: ev.append(('d',sid,r)))
def req(method, qs, body=b''):
    out={}
    def sr(s,h): out['s']=s
    env={'REQUEST_METHOD':method,'QUERY_STRING':qs,'CONTENT_LENGTH':str(len(body)),'wsgi.input':io.BytesIO(body)}
    out['b']=srv.handle_request(env,sr)
    return out
print(req('GET','transport=polling&EIO=4'))
sid=ev[0][1]
# case A: pending poll, then disconnect
res={}
t=threading.Thread(target=lambda: res.update(poll=req('GET','transport=polling&sid='+sid)),daemon=True); t.start()
time.sleep(0.3)
t2=threading.Thread(target=lambda: (srv.disconnect(sid), res.update(disc='returned')),daemon=True); t2.start()
t2.join(6); print('A disconnect returned?', res.get('disc'), 'poll:', res.get('poll'), ev)
