from engineio import async_server, async_socket, packet
import asimk, simk
TXT = ['', 'x', '{"a":1}', 'probe']

def request(k, srv, method, qs, body=b''):
    sent = []
    inbox = [{'type': 'http.request', 'body': body, 'more_body': False}]
    async def receive():
        return inbox.pop(0)
    async def send(ev):
        sent.append(ev)
    scope = {'type': 'http', 'method': method, 'path': '/engine.io/', 'query_string': qs.encode(),
             'headers': [(b'content-length', str(len(body)).encode())]}
    t = k.spawn(srv.handle_request(scope, receive, send))
    return t, sent

def ascenario(ptype: int, ti: int) -> bool:
    """
    pre: 0 <= ptype <= 9
    pre: 0 <= ti < 4
    post: _
    """
    k = asimk.AKernel()
    shim = asimk.make_shim(k)
    async_server.asyncio = shim
    async_socket.asyncio = shim
    async_socket.time = simk.Clock(k)
    srv = async_server.AsyncServer(async_mode='asgi', logger=simk.NullLogger(), async_handlers=False, monitor_clients=False)
    events = []
    srv.on('connect', lambda sid, env: events.append(('connect', sid)))
    srv.on('message', lambda sid, d: events.append(('message', sid, d)))
    srv.on('disconnect', lambda sid, r: events.append(('disconnect', sid, r)))
    t, sent = request(k, srv, 'GET', 'transport=polling&EIO=4')
    k.run(until=0)
    assert t.done_ and t.exc is None, t.exc
    sid = events[0][1]
    body = (str(ptype) + TXT[ti]).encode('utf-8')
    t2, sent2 = request(k, srv, 'POST', 'transport=polling&sid=' + sid, body)
    k.run(until=0)
    msgs = [e for e in events if e[0] == 'message']
    if not t2.done_:
        return False
    if t2.exc is not None:
        return False
    st = sent2[0]['status']
    if ptype == 4:
        return len(msgs) == 1 and st == 200
    if ptype in (7, 8, 9):
        return len(msgs) == 0     # known: IndexError -> 200
    return len(msgs) == 0
if __name__ == '__main__':
    print([ascenario(p, 1) for p in range(10)])
