from engineio import static_files, base_server

SF = {'/static': '/srv/pub', '/index.html': '/srv/index.html'}
def static_inside(tail: str) -> bool:
    """
    pre: len(tail) <= 10
    post: _
    """
    path = '/' + tail
    f = static_files.get_static_file(path, SF)
    if f is None:
        return True
    fn = f['filename']
    if fn == '/srv/index.html':
        return True
    if not fn.startswith('/srv/pub'):
        return False
    depth = 0
    for seg in fn[len('/srv/pub'):].split('/'):
        if seg == '..':
            depth -= 1
            if depth < 0:
                return False
        elif seg not in ('', '.'):
            depth += 1
    return True

class S(base_server.BaseServer):
    def __init__(self): pass

def origin_gate(origin: str, host: str, fhost: str, secure: bool, cfg: int) -> bool:
    """
    pre: len(origin) <= 24 and len(host) <= 8 and len(fhost) <= 8
    pre: 0 <= cfg <= 4
    post: _
    """
    s = S()
    s.cors_allowed_origins = [None, '*', 'http://a.com', ['http://a.com', 'https://b.org'], []][cfg]
    s.cors_credentials = True
    env = {'wsgi.url_scheme': 'https' if secure else 'http', 'HTTP_HOST': host, 'HTTP_ORIGIN': origin,
           'REQUEST_METHOD': 'GET'}
    if fhost:
        env['HTTP_X_FORWARDED_HOST'] = fhost
    allowed = s._cors_allowed_origins(env)
    hdrs = s._cors_headers(env)
    acao = [v for k, v in hdrs if k == 'Access-Control-Allow-Origin']
    # reference
    sch = 'https' if secure else 'http'
    if cfg == 0:
        ref = [sch + '://' + host]
        if fhost:
            ref.append(sch + '://' + fhost.split(',')[0].strip())
        ok = origin in ref
    elif cfg == 1:
        ok = True
    elif cfg == 2:
        ok = origin == 'http://a.com'
    elif cfg == 3:
        ok = origin in ('http://a.com', 'https://b.org')
    else:
        return acao == []
    if ok:
        return acao == [origin]
    return acao == []
