from engineio import async_server, async_socket, packet
import asimk, simk
from p7 import request

def ws_request(k, srv, sid, frames):
    """frames: list of asgi events delivered after websocket.connect"""
    sent = []
    inbox = [{'type': 'websocket.connect'}] + list(frames)
    async def receive():
        await k.ablock(lambda: bool(inbox))
        return inbox.pop(0)
    async def send(ev):
        sent.append(ev)
    scope = {'type': 'websocket', 'path': '/engine.io/', 'query_string': ('transport=websocket&sid=' + sid).encode(),
             'headers': [(b'upgrade', b'websocket'), (b'connection', b'Upgrade')]}
    t = k.spawn(srv.handle_request(scope, receive, send))
    return t, sent, inbox

def up(kind: int) -> str:
    """
    pre: 0 <= kind <= 5
    post: _ == ''
    """
    k = asimk.AKernel()
    shim = asimk.make_shim(k)
    async_server.asyncio = shim; async_socket.asyncio = shim; async_socket.time = simk.Clock(k)
    srv = async_server.AsyncServer(async_mode='asgi', logger=simk.NullLogger(), async_handlers=False,
                                   monitor_clients=False, max_http_buffer_size=10)
    events = []
    srv.on('connect', lambda sid, env: events.append(('connect', sid)))
    srv.on('message', lambda sid, d: events.append(('message', sid, d)))
    t, sent = request(k, srv, 'GET', 'transport=polling&EIO=4'); k.run(until=0)
    sid = events[0][1]
    FR = [
        [{'type': 'websocket.disconnect'}],                                   # peer vanishes before probe
        [{'type': 'websocket.receive', 'text': '4hello'}],                    # wrong first frame
        [{'type': 'websocket.receive', 'text': '2probe'}, {'type': 'websocket.disconnect'}],  # vanish after probe
        [{'type': 'websocket.receive', 'text': '2probe'}, {'type': 'websocket.receive', 'text': '4x'}],
        [{'type': 'websocket.receive', 'text': '2' + 'p' * 20}],              # oversize first frame
        [{'type': 'websocket.receive', 'text': '2probe'}, {'type': 'websocket.receive', 'text': '5' + 'x' * 20}],
    ][kind]
    tw, wsent, inbox = ws_request(k, srv, sid, FR); k.run(until=0)
    # app sends a message, client polls: must get it on polling
    ts = k.spawn(srv.send(sid, 'after')); k.run(until=0)
    tp, psent = request(k, srv, 'GET', 'transport=polling&sid=' + sid); k.run(until=0)
    if not tp.done_:
        return 'poll blocked'
    body = psent[1]['body'] if len(psent) > 1 else b''
    if b'4after' not in body:
        return 'kind=%d: message not retrievable by polling, got %r (ws task exc=%r)' % (kind, body, tw.exc)
    return ''
if __name__ == '__main__':
    for i in range(6): print(i, up(i))
