"""Throwaway probe: greenlet sim kernel for the threaded server."""
import greenlet, io

class Empty(Exception):
    pass

class Kernel:
    def __init__(self):
        self.main = greenlet.getcurrent()
        self.now = 0
        self.tasks = []       # all tasks
        self.ready = []       # runnable
        self.current = None
    # ---- task mgmt
    def spawn(self, fn, *a, **kw):
        t = Task(self, fn, a, kw)
        self.tasks.append(t)
        self.ready.append(t)
        return t
    def block(self, cond, deadline=None):
        """called from inside a task: block until cond() or deadline; returns True if cond"""
        t = self.current
        assert t is not None, 'blocking call from main'
        while True:
            if cond():
                return True
            if deadline is not None and self.now >= deadline:
                return False
            t.cond, t.deadline = cond, deadline
            self.main.switch()
    def run(self, until=None):
        """run until quiescent; advance time to earliest deadline while < until"""
        while True:
            progressed = False
            for t in list(self.tasks):
                if t.done:
                    continue
                if t.cond is None or t.cond() or (t.deadline is not None and self.now >= t.deadline):
                    t.cond = None
                    self.current = t
                    t.g.switch()
                    self.current = None
                    if t.g.dead:
                        t.done = True
                    progressed = True
            if progressed:
                continue
            dls = [t.deadline for t in self.tasks if not t.done and t.deadline is not None]
            if not dls:
                if until is not None and self.now < until:
                    self.now = until
                return
            nxt = min(dls)
            if until is not None and nxt > until:
                self.now = until
                return
            self.now = nxt

class Task:
    def __init__(self, k, fn, a, kw):
        self.k = k; self.cond = None; self.deadline = None; self.done = False
        self.g = greenlet.greenlet(lambda: fn(*a, **kw), parent=k.main)
    def join(self):
        self.k.block(lambda: self.done)

def make_async(k):
    class Thread:
        def __init__(self, target=None, args=(), kwargs=None):
            self.target, self.args, self.kwargs = target, args, kwargs or {}
        def start(self):
            self.t = k.spawn(self.target, *self.args, **self.kwargs)
        def join(self):
            self.t.join()
    class Queue:
        def __init__(self):
            self.items = []; self.unfinished = 0
        def put(self, x):
            self.items.append(x); self.unfinished += 1
        def get(self, block=True, timeout=None):
            if not block:
                if not self.items: raise Empty()
                return self.items.pop(0)
            dl = None if timeout is None else k.now + timeout
            if not k.block(lambda: bool(self.items), dl):
                raise Empty()
            return self.items.pop(0)
        def task_done(self):
            self.unfinished -= 1
        def join(self):
            k.block(lambda: self.unfinished == 0)
    class Event:
        def __init__(self): self.flag = False
        def is_set(self): return self.flag
        def set(self): self.flag = True
        def wait(self, timeout=None):
            dl = None if timeout is None else k.now + timeout
            return k.block(lambda: self.flag, dl)
    def sleep(s=0):
        dl = k.now + s
        k.block(lambda: False, dl)
    return {'thread': Thread, 'queue': Queue, 'queue_empty': Empty, 'event': Event,
            'websocket': None, 'sleep': sleep}

class Clock:
    def __init__(self, k): self.k = k
    def time(self): return self.k.now

class NullLogger:
    def info(self,*a,**k): pass
    warning = error = debug = info
    def exception(self,*a,**k): pass
