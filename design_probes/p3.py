import re, json
W = re.compile(r'[ \t\n\r]*')
def f(s: str) -> bool:
    """
    pre: len(s) <= 3
    post: _
    """
    return W.match(s, 0).end() <= 3

def g(s: str) -> bool:
    """
    pre: len(s) <= 3
    post: _
    """
    try:
        v = json.loads(s)
    except ValueError:
        return True
    return v != [1]
