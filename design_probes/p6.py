import io
from engineio import server, socket as esocket, packet
import simk

def run_request(k, srv, method, qs, body=b''):
    out = {}
    def sr(status, headers):
        out.setdefault('calls', []).append((status, headers))
    def task():
        env = {'REQUEST_METHOD': method, 'QUERY_STRING': qs, 'CONTENT_LENGTH': str(len(body)),
               'wsgi.input': io.BytesIO(body)}
        out['body'] = srv.handle_request(env, sr)
    t = k.spawn(task)
    return t, out

def scenario(ptype: int, txt: str) -> bool:
    """
    pre: 0 <= ptype <= 9
    pre: len(txt) <= 2
    post: _
    """
    k = simk.Kernel()
    srv = server.Server(async_mode='threading', logger=simk.NullLogger(), async_handlers=False, monitor_clients=False)
    srv._async = simk.make_async(k)
    esocket.time = simk.Clock(k)
    events = []
    srv.on('connect', lambda sid, env: events.append(('connect', sid)))
    srv.on('message', lambda sid, d: events.append(('message', sid, d)))
    srv.on('disconnect', lambda sid, r: events.append(('disconnect', sid, r)))
    t, out = run_request(k, srv, 'GET', 'transport=polling&EIO=4')
    k.run(until=0)
    assert t.done
    sid = events[0][1]
    body = (str(ptype) + txt).encode('utf-8')
    t2, out2 = run_request(k, srv, 'POST', 'transport=polling&sid=' + sid, body)
    k.run(until=0)
    if not t2.done:
        return False     # worker blocked
    st = out2['calls'][0][0]
    msgs = [e for e in events if e[0] == 'message']
    if ptype == 4:
        return len(msgs) == 1 and st.startswith('200')
    return len(msgs) == 0
