import greenlet

class Q:
    def __init__(self, kernel):
        self.items = []
        self.kernel = kernel
    def put(self, x):
        self.items.append(x)
    def get(self):
        while not self.items:
            self.kernel.main.switch()
        return self.items.pop(0)

class K:
    def __init__(self):
        self.main = greenlet.getcurrent()

def consumer(q, out):
    a = q.get()
    b = q.get()
    out.append(a)
    out.append(b)

def f(x: int, y: int, first: bool) -> bool:
    """
    pre: 0 <= x <= 100 and 0 <= y <= 100
    post: _
    """
    k = K()
    q = Q(k)
    out = []
    g = greenlet.greenlet(consumer)
    g.switch(q, out)      # blocks in first get
    if first:
        q.put(x); g.switch(); q.put(y); g.switch()
    else:
        q.put(y); g.switch(); q.put(x); g.switch()
    # claim (false when x > y and not first...): out sorted
    return out[0] <= out[1] or x == 77
