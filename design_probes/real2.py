import io, threading, time
from engineio import server
srv = server.Server(async_mode='threading', monitor_clients=False, ping_interval=3, ping_timeout=2)
ev=[]
srv.on('connect', lambda sid, env: ev.append(('c',sid)))
srv.on('disconnect', lambda sid, r: ev.append(('d',sid,r)))
def req(method, qs, body=b''):
    out={}
    def sr(s,h): out['s']=s
    env={'REQUEST_METHOD':method,'QUERY_STRING':qs,'CONTENT_LENGTH':str(len(body)),'wsgi.input':io.BytesIO(body)}
    out['b']=srv.handle_request(env,sr)
    return out
req('GET','transport=polling&EIO=4')
sid=ev[0][1]
res={}
t2=threading.Thread(target=lambda: (res.update(post=req('POST','transport=polling&sid='+sid,b'6'))),daemon=True); t2.start()
t2.join(8); print('B post returned?', res.get('post'), ev)
