import io
from engineio import server, socket as esocket, packet, payload
import simk

class WSConn:
    """client side handle of a simulated websocket"""
    def __init__(self, k):
        self.k = k; self.to_server = []; self.from_server = []; self.closed_by_server = False
        self.client_closed = False
    def client_send(self, data): self.to_server.append(data)
    def client_close(self): self.client_closed = True

def make_ws_class(k, conns):
    class SimWS:
        def __init__(self, handler, server):
            self.handler = handler
        def __call__(self, environ, start_response):
            self.conn = environ['sim.ws']
            return self.handler(self)
        def wait(self):
            c = self.conn
            k.block(lambda: bool(c.to_server) or c.client_closed)
            if c.to_server:
                return c.to_server.pop(0)
            return None
        def send(self, msg):
            if self.conn.client_closed:
                raise OSError()
            self.conn.from_server.append(msg)
        def close(self):
            self.conn.closed_by_server = True
    return SimWS

def request(k, srv, method, qs, body=b'', ws=None):
    out = {}
    def sr(status, headers): out.setdefault('calls', []).append((status, headers))
    def task():
        env = {'REQUEST_METHOD': method, 'QUERY_STRING': qs, 'CONTENT_LENGTH': str(len(body)),
               'wsgi.input': io.BytesIO(body)}
        if ws is not None:
            env['HTTP_UPGRADE'] = 'websocket'; env['HTTP_CONNECTION'] = 'Upgrade'; env['sim.ws'] = ws
        out['body'] = srv.handle_request(env, sr)
    return k.spawn(task), out

def msgs_of_body(body):
    if not body: return []
    p = payload.Payload(encoded_payload=body[0].decode())
    return [x.data for x in p.packets if x.packet_type == 4], [x.packet_type for x in p.packets]

def c03(n0: int, n1: int, n2: int, n3: int, n4: int, pending: bool, late: bool) -> str:
    """
    pre: 0 <= n0 <= 1 and 0 <= n1 <= 1 and 0 <= n2 <= 1 and 0 <= n3 <= 1 and 0 <= n4 <= 1
    post: _ == ''
    """
    k = simk.Kernel(); k.now = 1000
    srv = server.Server(async_mode='threading', logger=simk.NullLogger(), async_handlers=False, monitor_clients=False)
    srv._async = simk.make_async(k); srv._async['websocket'] = make_ws_class(k, None)
    esocket.time = simk.Clock(k)
    events = []
    srv.on('connect', lambda sid, env: events.append(('connect', sid)))
    t, out = request(k, srv, 'GET', 'transport=polling&EIO=4'); k.run(until=k.now)
    sid = events[0][1]
    seq = [0]
    polled = []   # message payloads via polling, in order
    def sends(n):
        for _ in range(n):
            srv.send(sid, 'm%d' % seq[0]); seq[0] += 1
    polls = []
    def poll(tag):
        tt, oo = request(k, srv, 'GET', 'transport=polling&sid=' + sid); polls.append((tag, tt, oo)); return tt, oo
    sends(n0)
    if pending:
        poll('pre')
        k.run(until=k.now)
    sends(n1); k.run(until=k.now)
    ws = WSConn(k)
    tw, ow = request(k, srv, 'GET', 'transport=websocket&sid=' + sid, ws=ws); k.run(until=k.now)
    sends(n2); k.run(until=k.now)
    ws.client_send('2probe'); k.run(until=k.now)
    if ws.from_server[:1] != ['3probe']:
        return 'no pong probe: %r' % (ws.from_server,)
    sends(n3); k.run(until=k.now)
    if late:
        poll('late'); k.run(until=k.now)
    ws.client_send('5'); k.run(until=k.now)
    sends(n4); k.run(until=k.now)
    # collect
    got = []
    for tag, tt, oo in polls:
        if not tt.done:
            return 'poll %s still pending after upgrade' % tag
        m, types = msgs_of_body(oo['body'])
        if tag == 'late' and types != [6]:
            return 'late poll returned %r' % (types,)
        got.append(('poll', m))
    wsm = [f[1:] for f in ws.from_server[1:] if isinstance(f, str) and f[:1] == '4']
    allm = [x for _, m in got for x in m] + wsm
    exp = ['m%d' % i for i in range(seq[0])]
    if sorted(allm) != sorted(exp):
        return 'lost/dup: got %r exp %r' % (allm, exp)
    if allm != exp:
        return 'order: got %r exp %r' % (allm, exp)
    if srv.transport(sid) != 'websocket':
        return 'not upgraded'
    return ''
if __name__ == '__main__':
    print(repr(c03(1,1,1,1,1,True,True)), repr(c03(0,0,0,0,0,False,False)))
