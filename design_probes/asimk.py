"""Throwaway probe: coroutine sim kernel + asyncio shim."""
import inspect, types

class CancelledError(BaseException): pass
class TimeoutError_(Exception): pass
class QueueEmpty(Exception): pass

class _ScopeTimeout(CancelledError):
    def __init__(self, scope): self.scope = scope

class _Yield:
    def __await__(self):
        yield self

class Task:
    def __init__(self, k, coro):
        self.k = k; self.coro = coro; self.cond = None; self.deadline = None
        self.done_ = False; self.result_ = None; self.exc = None
        self.scopes = []   # [(id, deadline)]
        self.callbacks = []
    def done(self): return self.done_
    def add_done_callback(self, cb): self.callbacks.append(cb)
    def exception(self): return self.exc
    def __await__(self):
        yield from self.k.ablock(lambda: self.done_).__await__()
        if self.exc is not None: raise self.exc
        return self.result_

class AKernel:
    def __init__(self):
        self.now = 0; self.tasks = []; self.current = None; self._scope = 0
    def spawn(self, coro):
        t = Task(self, coro); self.tasks.append(t); return t
    async def ablock(self, cond, deadline=None):
        t = self.current
        while True:
            if cond(): return True
            for sid, dl in t.scopes:
                if self.now >= dl: raise _ScopeTimeout(sid)
            if deadline is not None and self.now >= deadline: return False
            t.cond = cond
            dls = [dl for _, dl in t.scopes] + ([deadline] if deadline is not None else [])
            t.deadline = min(dls) if dls else None
            await _Yield()
    def run(self, until=None):
        while True:
            progressed = False
            for t in list(self.tasks):
                if t.done_: continue
                if t.cond is None or t.cond() or (t.deadline is not None and self.now >= t.deadline):
                    t.cond = None
                    self.current = t
                    try:
                        t.coro.send(None)
                    except StopIteration as e:
                        t.done_ = True; t.result_ = e.value
                    except CancelledError as e:
                        t.done_ = True; t.exc = e
                    except Exception as e:
                        t.done_ = True; t.exc = e
                    self.current = None
                    if t.done_:
                        for cb in t.callbacks: cb(t)
                    progressed = True
            if progressed: continue
            dls = [t.deadline for t in self.tasks if not t.done_ and t.deadline is not None]
            if not dls: return
            nxt = min(dls)
            if until is not None and nxt > until:
                self.now = until; return
            self.now = nxt

def make_shim(k):
    shim = types.SimpleNamespace()
    shim.CancelledError = CancelledError
    shim.TimeoutError = TimeoutError_
    shim.QueueEmpty = QueueEmpty
    shim.iscoroutinefunction = inspect.iscoroutinefunction
    async def sleep(s=0):
        await k.ablock(lambda: False, k.now + s)
    shim.sleep = sleep
    def ensure_future(c):
        if isinstance(c, Task): return c
        return k.spawn(c)
    shim.ensure_future = ensure_future
    shim.create_task = ensure_future
    async def wait_for(aw, timeout):
        if timeout is None:
            return await aw
        t = k.current
        k._scope += 1; sid = k._scope
        t.scopes.append((sid, k.now + timeout))
        try:
            return await aw
        except _ScopeTimeout as e:
            if e.scope == sid:
                raise TimeoutError_()
            raise
        finally:
            t.scopes.pop()
    shim.wait_for = wait_for
    async def wait(tasks):
        await k.ablock(lambda: all(t.done_ for t in tasks))
    shim.wait = wait
    class Queue:
        def __init__(self): self.items = []; self.unfinished = 0
        async def put(self, x): self.put_nowait(x)
        def put_nowait(self, x): self.items.append(x); self.unfinished += 1
        async def get(self):
            await k.ablock(lambda: bool(self.items))
            return self.items.pop(0)
        def get_nowait(self):
            if not self.items: raise QueueEmpty()
            return self.items.pop(0)
        def task_done(self): self.unfinished -= 1
        async def join(self):
            await k.ablock(lambda: self.unfinished == 0)
    shim.Queue = Queue
    class Event:
        def __init__(self): self.flag = False
        def is_set(self): return self.flag
        def set(self): self.flag = True
        async def wait(self):
            await k.ablock(lambda: self.flag); return True
    shim.Event = Event
    shim.get_running_loop = lambda: types.SimpleNamespace(is_closed=lambda: False)
    return shim
