import greenlet
from p4 import Q, K

def consumer(q, out):
    a = q.get()
    if a > 50:          # symbolic branch inside greenlet
        out.append('big')
    else:
        out.append('small')
    b = q.get()
    out.append(a + b)

def f(x: int, y: int) -> bool:
    """
    pre: 0 <= x <= 100 and 0 <= y <= 100
    post: _
    """
    k = K()
    q = Q(k)
    out = []
    g = greenlet.greenlet(consumer)
    g.switch(q, out)
    q.put(x); g.switch(); q.put(y); g.switch()
    return (out[0] == 'big') == (x > 50) and out[1] == x + y and g.dead

def g2(x: int, y: int) -> bool:
    """
    pre: 0 <= x <= 100 and 0 <= y <= 100
    post: _
    """
    k = K()
    q = Q(k)
    out = []
    g = greenlet.greenlet(consumer)
    g.switch(q, out)
    q.put(x); g.switch(); q.put(y); g.switch()
    return not (out[0] == 'big' and out[1] == 150)
