import time, z3
ALPH = 'ABCDEFGHIJKLMNOPQRSTUVWXYZabcdefghijklmnopqrstuvwxyz0123456789+/'
def enc6(v):  # 6-bit BV -> 8-bit char code, after replace('/','_').replace('+','-')
    out = z3.BitVecVal(0, 8)
    for i, ch in reversed(list(enumerate(ALPH))):
        ch = {'/': '_', '+': '-'}.get(ch, ch)
        out = z3.If(v == i, z3.BitVecVal(ord(ch), 8), out)
    return out
def gen_id(rnd, seq):   # rnd: BV96, seq: BV24 -> list of 20 char BVs
    data = z3.Concat(rnd, seq)     # 120 bits, big endian
    return [enc6(z3.Extract(119 - 6*i, 114 - 6*i, data)) for i in range(20)]
def in_charset(c):
    return z3.Or(z3.And(c >= ord('A'), c <= ord('Z')), z3.And(c >= ord('a'), c <= ord('z')),
                 z3.And(c >= ord('0'), c <= ord('9')), c == ord('_'), c == ord('-'))
r1, r2 = z3.BitVecs('r1 r2', 96); s1, s2 = z3.BitVecs('s1 s2', 24)
def q(name, *cs):
    s = z3.Solver(); s.add(*cs); t = time.time(); r = s.check(); print(name, r, round(time.time()-t, 3), 's')
id1, id2 = gen_id(r1, s1), gen_id(r2, s2)
q('(a) charset', z3.Not(z3.And(*[in_charset(c) for c in id1])))
q('(b) seq injective', s1 != s2, z3.And(*[a == b for a, b in zip(id1, id2)]))
q('(d) rnd injective', r1 != r2, s1 == s2, z3.And(*[a == b for a, b in zip(id1, id2)]))
# step lemma over Python ints
x, s, i = z3.Ints('x s i')
M = 2**24
nxt = lambda v: (v + 1) % M        # model of (v+1) & 0xffffff for v in [0, M)
q('(c1) range', x >= 0, x < M, z3.Not(z3.And(nxt(x) >= 0, nxt(x) < M)))
q('(c2) induction', s >= 0, s < M, i >= 0, x == (s + i) % M, nxt(x) != (s + i + 1) % M)
j = z3.Int('j')
q('(c3) window distinct', s >= 0, s < M, i >= 0, j > i, j < i + M, (s + i) % M == (s + j) % M)
# mask semantics: (v+1) & 0xffffff == (v+1) % 2**24 for v in [0,M) -- BV check
v = z3.BitVec('v', 32)
q('(c0) mask==mod', z3.ULT(v, M), ((v + 1) & 0xffffff) != z3.URem(v + 1, M))
