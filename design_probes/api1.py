import collections, time, sys
from crosshair.core import analyze_function, run_checkables
from crosshair.options import AnalysisOptionSet, DEFAULT_OPTIONS, AnalysisKind
from crosshair.core_and_libs import standalone_statespace
import crosshair.core_and_libs
import z3
import p1, p9

calls = {'n': 0, 't': 0.0}
_orig = z3.Solver.check
def _check(self, *a):
    t = time.time()
    try:
        return _orig(self, *a)
    finally:
        calls['n'] += 1; calls['t'] += time.time() - t
z3.Solver.check = _check

for fn in (p1.rt_bytes, p9.rt_text):
    stats = collections.Counter()
    opts = AnalysisOptionSet(per_condition_timeout=30, per_path_timeout=10, report_all=True, stats=stats,
                             analysis_kind=[AnalysisKind.PEP316])
    msgs = run_checkables(analyze_function(fn, opts))
    for m in msgs:
        print(fn.__name__, m.state, repr(m.message), m.line)
    print(dict(stats), calls)
