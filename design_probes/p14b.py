from p14 import interop
def interop_sym(n: int) -> str:
    """
    pre: 0 <= n <= 40
    post: _ == ''
    """
    return interop(n)
def interop_sym16(n: int) -> str:
    """
    pre: 0 <= n <= 16
    post: _ == ''
    """
    return interop(n)
