from typing import List, Optional
from engineio import packet, payload, static_files, base_client, base_server

class StubJson:
    """json seam: loads always 'not JSON' (ValueError); dumps unused."""
    @staticmethod
    def loads(s):
        raise ValueError('stub: not json')
    @staticmethod
    def dumps(o, **kw):
        return '<json>'

def rt_text(t: int, s: str) -> bool:
    """
    pre: 0 <= t <= 6
    pre: len(s) <= 6
    post: _
    """
    packet.Packet.json = StubJson
    p = packet.Packet(t, s)
    e = p.encode(b64=True)
    if e != str(t) + s:
        return False
    if len(s) > 0 and t == 4 and s[0] == 'b':
        pass
    q = packet.Packet(encoded_packet=e)
    return q.packet_type == t and q.data == s and not q.binary

def payload_rt(t1: int, s1: str, t2: int, s2: str) -> bool:
    """
    pre: 0 <= t1 <= 6 and 0 <= t2 <= 6
    pre: len(s1) <= 3 and len(s2) <= 3
    pre: chr(30) not in s1 and chr(30) not in s2
    post: _
    """
    packet.Packet.json = StubJson
    ps = [packet.Packet(t1, s1), packet.Packet(t2, s2)]
    e = payload.Payload(ps).encode()
    if e != str(t1) + s1 + chr(30) + str(t2) + s2:
        return False
    q = payload.Payload(encoded_payload=e)
    return len(q.packets) == 2 and q.packets[0].data == s1 and q.packets[1].data == s2 and q.packets[0].packet_type == t1 and q.packets[1].packet_type == t2

def payload_total(e: str) -> bool:
    """
    pre: len(e) <= 5
    post: _
    """
    packet.Packet.json = StubJson
    try:
        q = payload.Payload(encoded_payload=e)
    except Exception:
        return True
    return len(q.packets) <= 16 and len(q.packets) == e.count(chr(30)) + 1 or e == ''

class C(base_client.BaseClient):
    pass

def url_map(host: str, q: str, secure: bool, ws: bool) -> bool:
    """
    pre: 1 <= len(host) <= 5 and len(q) <= 4
    pre: all(c in 'ab.:1' for c in host)
    pre: all(c in 'ab=&1' for c in q)
    post: _
    """
    c = C.__new__(C)
    url = ('https' if secure else 'http') + '://' + host + '/x' + ('?' + q if q else '')
    out = c._get_engineio_url(url, '/engine.io/', 'websocket' if ws else 'polling')
    scheme = ('ws' if ws else 'http') + ('s' if secure else '')
    exp = scheme + '://' + host + '/engine.io/?' + q + ('&' if q else '') + 'transport=' + ('websocket' if ws else 'polling') + '&EIO=4'
    return out == exp
