from engineio import packet

def dec_total(e: str) -> bool:
    """
    pre: len(e) <= 4
    raises: ValueError
    post: _
    """
    q = packet.Packet(encoded_packet=e)
    if q.binary:
        return q.packet_type == 4 and isinstance(q.data, bytes)
    return 0 <= q.packet_type <= 9 and not isinstance(q.data, (bool, int))

def dec_json(s: str) -> bool:
    """
    pre: len(s) <= 3
    post: _
    """
    q = packet.Packet(encoded_packet='4' + s)
    return q.packet_type == 4
