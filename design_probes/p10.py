from p6 import *

def hb(d: int, s: int) -> bool:
    """
    pre: 0 <= d <= 60
    pre: 0 <= s <= 80
    post: _
    """
    PI, PT = 25, 20
    k = simk.Kernel()
    srv = server.Server(async_mode='threading', logger=simk.NullLogger(), async_handlers=False,
                        monitor_clients=False, ping_interval=PI, ping_timeout=PT)
    srv._async = simk.make_async(k)
    esocket.time = simk.Clock(k)
    events = []
    srv.on('connect', lambda sid, env: events.append(('connect', sid)))
    srv.on('disconnect', lambda sid, r: events.append(('disconnect', sid, r, k.now)))
    t, out = run_request(k, srv, 'GET', 'transport=polling&EIO=4')
    k.run(until=0)
    sid = events[0][1]
    # client polls; gets PING at PI
    t1, o1 = run_request(k, srv, 'GET', 'transport=polling&sid=' + sid)
    k.run(until=PI)
    if not t1.done or o1['body'] != [b'2']:
        return False
    # PONG arrives d after PING; app sends at absolute PI + s
    t_pong = PI + d
    t_send = PI + s
    sent_ok = None
    def do_pong():
        run_request(k, srv, 'POST', 'transport=polling&sid=' + sid, b'3')
    def do_send():
        srv.send(sid, 'hello')
    acts = sorted([(t_pong, 0, do_pong), (t_send, 1, do_send)], key=lambda x: (x[0], x[1]))
    for when, _, act in acts:
        k.run(until=when)
        k.spawn(act)
        k.run(until=when)
    k.run(until=PI + 100)
    disc = [e for e in events if e[0] == 'disconnect']
    timed_out = any(e[2] == 'ping timeout' for e in disc)
    # spec: PONG within PT of PING (d <= PT) and before any send after the deadline => never ping-timeout
    if d <= PT:
        return not timed_out
    # late pong: timeout iff a send was attempted after deadline and before pong
    expect = (s > PT and s < d) or (s > PT and s == d and False)
    return timed_out == (PT < s < d)
if __name__ == '__main__':
    import sys
    print(hb(25, 21))
