from typing import Union
from engineio import packet

def rt_text(t: int, s: str) -> bool:
    """
    pre: 0 <= t <= 6
    pre: len(s) <= 3
    post: _
    """
    p = packet.Packet(t, s)
    e = p.encode(b64=True)
    if e != str(t) + s:
        return False
    q = packet.Packet(encoded_packet=e)
    if q.packet_type != t:
        return False
    return q.data == s

def rt_bytes(b: bytes, first_b64: bool, second_b64: bool) -> bool:
    """
    pre: len(b) <= 4
    post: _
    """
    p = packet.Packet(packet.MESSAGE, b)
    e1 = p.encode(b64=first_b64)
    e2 = p.encode(b64=second_b64)
    if second_b64:
        return isinstance(e2, str)
    return isinstance(e2, bytes)

def rt_b64(b: bytes) -> bool:
    """
    pre: len(b) <= 4
    post: _
    """
    p = packet.Packet(packet.MESSAGE, b)
    e = p.encode(b64=True)
    q = packet.Packet(encoded_packet=e)
    return q.binary and q.packet_type == 4 and q.data == b
