from p13 import *
def run():
    k = simk.Kernel(); k.now = 1000
    srv = server.Server(async_mode='threading', logger=simk.NullLogger(), async_handlers=False, monitor_clients=False)
    srv._async = simk.make_async(k); srv._async['websocket'] = make_ws_class(k, None)
    esocket.time = simk.Clock(k)
    events = []
    srv.on('connect', lambda sid, env: events.append(('connect',)))
    srv.on('message', lambda sid, d: events.append(('message', d)))
    srv.on('disconnect', lambda sid, r: events.append(('disconnect', r)))
    ws = WSConn(k)
    tw, ow = request(k, srv, 'GET', 'transport=websocket&EIO=4', ws=ws); k.run(until=k.now)
    ws.client_send('1'); ws.client_send('4after-close'); k.run(until=k.now)
    ws.client_close(); k.run(until=k.now)
    return events, ws.from_server[:1], tw.done
print(run())
