import types
from engineio import async_client, base_client, packet
import asimk, simk

class Resp:
    def __init__(self, status, body): self.status = status; self._b = body
    async def read(self): return self._b
    async def json(self):
        import json; return json.loads(self._b)

class SimAioSession:
    closed = False
    def __init__(self, k, script): self.k = k; self.script = script; self.log = []

    async def get(self, url, headers=None, data=None, timeout=None, **kw):
        self.log.append(('GET', url))
        return await self._next(timeout)
    async def post(self, url, headers=None, data=None, timeout=None, **kw):
        self.log.append(('POST', url, data))
        return Resp(200, b'ok')
    async def _next(self, timeout):
        if not self.script:
            # silence: honour the client's total timeout like aiohttp would
            await self.k.ablock(lambda: False, self.k.now + timeout.total)
            import asyncio
            raise asyncio.TimeoutError()
        return self.script.pop(0)
    async def close(self): self.closed = True

def run():
    k = asimk.AKernel(); k.now = 1000
    shim = asimk.make_shim(k)
    import asyncio as real
    shim.TimeoutError = real.TimeoutError; shim.CancelledError = real.CancelledError
    async_client.asyncio = shim
    base_client.time = simk.Clock(k)
    OPEN = b'0{"sid":"S1","upgrades":[],"pingInterval":25000,"pingTimeout":20000}'
    sess = SimAioSession(k, [Resp(200, OPEN), Resp(200, b'4hello\x1e2'), Resp(200, b'4w')])
    c = async_client.AsyncClient(logger=simk.NullLogger(), http_session=sess, handle_sigint=False)
    ev = []
    c.on('connect', lambda: ev.append(('connect', k.now)))
    c.on('message', lambda d: ev.append(('message', d, k.now)))
    c.on('disconnect', lambda r: ev.append(('disconnect', r, k.now)))
    async def app():
        await c.connect('http://h:5/?a=1', transports=['polling'])
        await c.send('up')
    k.spawn(app())
    k.run(until=k.now + 100)
    return ev, sess.log, c.state, c.sid, [t.done_ for t in k.tasks]
ev, log, state, sid, done = run()
print(ev); print(log); print(state, sid, done)
k2 = None
def run2():
    import traceback
    k = asimk.AKernel(); k.now = 1000
    shim = asimk.make_shim(k)
    import asyncio as real
    shim.TimeoutError = real.TimeoutError; shim.CancelledError = real.CancelledError
    async_client.asyncio = shim
    base_client.time = simk.Clock(k)
    OPEN = b'0{"sid":"S1","upgrades":[],"pingInterval":25000,"pingTimeout":20000}'
    sess = SimAioSession(k, [Resp(200, OPEN)])
    c = async_client.AsyncClient(logger=simk.NullLogger(), http_session=sess, handle_sigint=False)
    ev = []
    c.on('disconnect', lambda r: ev.append(('disconnect', r, k.now)))
    async def app():
        await c.connect('http://h:5/?a=1', transports=['polling'])
    k.spawn(app())
    k.run(until=k.now + 100)
    for t in k.tasks:
        print(t.coro.__qualname__, t.done_, repr(t.exc))
    print(ev, c.state, k.now)
run2()
