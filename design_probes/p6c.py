from p6 import *
TXT = ['', 'x', '{"a":1}', 'probe']
def scenario3(ptype: int, ti: int) -> bool:
    """
    pre: 0 <= ptype <= 9
    pre: 0 <= ti < 4
    post: _
    """
    k = simk.Kernel()
    srv = server.Server(async_mode='threading', logger=simk.NullLogger(), async_handlers=False, monitor_clients=False)
    srv._async = simk.make_async(k)
    esocket.time = simk.Clock(k)
    events = []
    srv.on('connect', lambda sid, env: events.append(('connect', sid)))
    srv.on('message', lambda sid, d: events.append(('message', sid, d)))
    srv.on('disconnect', lambda sid, r: events.append(('disconnect', sid, r)))
    t, out = run_request(k, srv, 'GET', 'transport=polling&EIO=4')
    k.run(until=0)
    sid = events[0][1]
    body = (str(ptype) + TXT[ti]).encode('utf-8')
    t2, out2 = run_request(k, srv, 'POST', 'transport=polling&sid=' + sid, body)
    k.run(until=0)
    msgs = [e for e in events if e[0] == 'message']
    if not t2.done:
        return ptype in (0, 2, 6, 7, 8, 9) and len(msgs) == 0
    st = out2['calls'][0][0]
    if ptype == 4:
        return len(msgs) == 1 and st.startswith('200')
    return len(msgs) == 0
