import io, types, urllib.parse
from engineio import server, socket as esocket, client as eclient, base_client, packet
import simk

class Resp:
    def __init__(self, status, body): self.status_code = status; self.content = body
    def json(self):
        import json; return json.loads(self.content)

class SimSession:
    """stands for requests.Session; forwards to a real Server in the same kernel"""
    def __init__(self, k, srv):
        self.k, self.srv = k, srv
        self.cookies = []; self.auth = None; self.cert = None; self.proxies = None; self.verify = True
        self.posts = []
    def request(self, method, url, headers=None, data=None, timeout=None):
        u = urllib.parse.urlparse(url)
        body = (data or '').encode() if isinstance(data, str) else (data or b'')
        if method == 'POST': self.posts.append(body)
        out = {}
        def sr(status, hdrs): out['status'] = status
        def task():
            env = {'REQUEST_METHOD': method, 'QUERY_STRING': u.query, 'CONTENT_LENGTH': str(len(body)),
                   'wsgi.input': io.BytesIO(body), 'PATH_INFO': u.path}
            out['body'] = self.srv.handle_request(env, sr)
        t = self.k.spawn(task)
        ok = self.k.block(lambda: t.done, None if timeout is None else self.k.now + timeout)
        if not ok:
            raise SimReqExc('timeout')
        return Resp(int(out['status'].split()[0]), b''.join(out['body']))

class SimReqExc(Exception): pass

def make_client(k, sess):
    class SimClient(eclient.Client):
        def start_background_task(self, target, *a, **kw):
            return k.spawn(target, *a, **kw)
        def create_queue(self, *a, **kw):
            q = simk.make_async(k)['queue'](); q.Empty = simk.Empty; return q
        def create_event(self, *a, **kw): return simk.make_async(k)['event']()
        def sleep(self, s=0): simk.make_async(k)['sleep'](s)
    eclient.requests = types.SimpleNamespace(exceptions=types.SimpleNamespace(RequestException=SimReqExc))
    eclient.time = simk.Clock(k); base_client.time = simk.Clock(k)
    return SimClient(logger=simk.NullLogger(), http_session=sess, handle_sigint=False)

def interop(n: int) -> str:
    k = simk.Kernel(); k.now = 1000
    srv = server.Server(async_mode='threading', logger=simk.NullLogger(), async_handlers=False, monitor_clients=False)
    srv._async = simk.make_async(k); esocket.time = simk.Clock(k)
    got = []
    srv.on('message', lambda sid, d: got.append(d))
    sess = SimSession(k, srv)
    c = make_client(k, sess)
    def app():
        c.connect('http://h', transports=['polling'])
        for i in range(n):
            c.send('m%d' % i)
    ta = k.spawn(app)
    k.run(until=k.now + 5)
    exp = ['m%d' % i for i in range(n)]
    if got != exp:
        return 'server got %d of %d messages; POST bodies had %r packets' % (len(got), n, [b.count(b'\x1e') + 1 for b in sess.posts])
    return ''
if __name__ == '__main__':
    for n in (1, 5, 16, 17, 40): print(n, repr(interop(n)))
